import json,sys
r=json.load(open(sys.argv[1]))
print(r['property'],r['class'],r.get('features'))
print(r['detail']); print(json.dumps(r.get('input') or r.get('locker_input')))
t=r['trace']
start=0
for k,l in enumerate(t):
    if ' g0.c' in l or 'generation 1' in l or 'FAULT' in l:
        start=max(0,k-1); break
if len(sys.argv)>2: start=0
print('\n'.join(t[start:]))
