#!/usr/bin/env python3
"""Writes /verif/MANIFEST.json (kept in one place so that it stays consistent)."""
import json
import subprocess

hook_commits = subprocess.run(["git", "-C", "/repo", "log", "--format=%h %s", "--reverse"], capture_output=True, text=True).stdout.splitlines()
hooks = [l.split()[0] for l in hook_commits if l.split(" ", 1)[1].startswith("verif:")]

TECH = "deterministic simulation with fault injection: seeded search over schedules (explicit decision lists, pseudo-random tails, PCT-style priorities), crash points, orderly shutdowns, store errors / outages / ambiguous commits, read failures, request cancellations and clock jumps / storms (synctest bubble with a discrete-event clock, one-runnable-at-a-time scheduler, simulated PostgreSQL store; half of the workers run a source-rewritten copy of the engine with a scheduling point after every statement and around every mutex operation); oracle = validity of the persisted log as linearisation witness; every violation is minimised, written as a replay file and reproduced in a fresh process before it is reported"

CHECKS = {
 "C02": ("exploration", "6.C02",
   "Seeded deterministic simulation of the real Commander/locker/batcher/VM over a simulated store: every accepted transaction is checked against the balances folded from the persisted log at its position (per-posting floor = the overdraft its request granted), and re-executed alone at that position with a freshly compiled program. Sampling, not proof: a clean batch is evidence over the schedules, workloads (literal / variable / metadata-designated / ordered / capped / overdraft sources, send-all, balance(), posting mode, reverts) and faults drawn.",
   "simulated store models PostgreSQL's contract (DESIGN 13); balance reads of one request are atomic in the simulator; interleavings at seam/hook granularity, plus statement boundaries of the engine packages on half of the workers; bounds <=5 clients x 3-4 ops (thorough: one more client, twice the requests), <=4 accounts"),
 "C05": ("exploration", "6.C05",
   "Every commit is checked inside the simulated store, across all generations: ids 0,1,2.. without gap, stored hash = the repository's ChainLog over the actual predecessor, transaction ids +1 in log order; the hash function's dependence on predecessor hash / type / data / date / idempotency key is tested on every entry. Schedules interleave id allocation, chaining, hand-off and persistence (hooks inside the append critical section), batch sizes 1-3, crashes at arbitrary steps and at named windows, restarts, store failures; thorough adds a crash sweep (a crash at every step of sampled schedules).",
   "hash oracle uses the repository's own ComputeHash (layout not pinned, dependence tested); duplicate log/tx ids are refused by the stub like the real unique indexes"),
 "C06": ("exploration", "6.C06",
   "History check over invoke/return events stamped with the scheduler's step counter: a success has its entry persisted at the moment of the response with the content the caller got; errors leave no entry (checked at the end of the run so a late batch cannot sneak in); no entry without a request; multiset bounds for marker-less writes; real-time order respected by log order. Faults: crash at every window (before hand-off, queued, before/after commit, after ack), InsertLogs failure and ambiguous commit (the real panic-and-die path of job.Runner runs), read failures at every read seam, request cancellation.",
   "requests are matched to entries by markers the workload puts in metadata; reverts and metadata deletions by (target,key) multisets"),
 "C07": ("exploration", "6.C07",
   "Per idempotency key, counted both by the key stored on entries and by the requests that carried it: at most one effect over all generations; every success returns the single stored outcome. Workload: groups sharing a key, sequential, concurrent and as retries after crashes between commit and acknowledgement; lookups are served from stored bytes through the repository's ToCore.",
   "a panic inside a client call counts as an error response (as the HTTP recoverer would answer)"),
 "C08": ("exploration", "6.C08",
   "Only the cache / concurrency clause of C08: every committed transaction of a balance-independent script equals what a fresh compiler.Compile of the same text yields when run alone at its log position (postings, tx metadata, account metadata), under cache sizes 1 and 96 (= larger than any run can fill: every miss/evict path, every hit path), concurrent use of one cached program and two ledgers sharing one Compiler. Does NOT decide source-level correctness of compiler/VM (pure function of the program: not a simulation target).",
   "reference = the same compiler/VM run sequentially; blind to a bug present in both"),
 "C10": ("exploration", "6.C10",
   "On the persisted log: each REVERTED_TRANSACTION targets an earlier transaction, its postings are exactly the original's reversed and swapped, its marker names the target, at most one revert entry and one successful revert response per target over all generations, unforced reverts never overdraw at their log position, untouched accounts return to their previous balance. Workload races 1-4 reverts of the same id (forced/unforced, with/without key) against spenders, with restarts in between.",
   "the reverted flag is maintained by the store stub (SQL trigger in production) and is used, not claimed"),
 "C11": ("exploration", "6.C11",
   "Per reference at most one committed transaction over all generations (checked at every commit); a request invoked after an acknowledged holder of the reference must end in CONFLICT. Persistence starvation makes the window between the competitor's hand-off and its commit arbitrarily long.",
   "the stub mirrors the absence of a unique index on reference"),
 "C13": ("exploration", "6.C13",
   "Audit at every restart and at the end of every run: each stored row (bytes only: type string, hash, date, normalised JSON, key) is read back through the repository's Logs.ToCore/HydrateLog and through ChainedLog JSON Marshal/Unmarshal, compared semantically with the object the engine wrote, and its hash recomputed from the round-tripped content. Restarts make every entry kind the last entry at a crash and the target of an idempotent retry. Input diversity (timestamps as the API parses them, >64-bit amounts, unicode/empty metadata) is what the generator produces.",
   "jsonb normalisation is modelled (sorted keys, arbitrary-precision numbers, microsecond timestamps)"),
 "C14": ("exploration", "6.C14",
   "Differential simulation: a drawn history H (real writes, restarts, store faults) is run with and without previews inserted at random positions under identical single-client schedules and explicit timestamps; durable log (ids, tx ids, hashes), every shared response and the event stream must be identical, and a preview followed by the identical real write must return the same transaction. Concurrent profile: a preview's marker never reaches the store or the bus.",
   "single-client schedules for the differential part (the two runs must be comparable step by step)"),
 "C15": ("exploration", "6.C15",
   "Dedicated simulation of command.DefaultLocker alone: 2-8 tasks with random read/write sets lock, hold and release; contexts are cancelled at arbitrary steps, in particular while the waiter sits between observing ctx.Done and dequeuing, so that a release can grant it in exactly that window. Oracle: holder intervals never overlap with a writer; at quiescence no uncancelled request is still waiting; a cancelled Lock returns an error; a final probe write-locking all accounts is granted.",
   "interleavings at the locker's hook points (entry, cancelled, granted, release) and, on half of the workers, at every statement boundary of lock.go including inside its critical sections (rewritten copy); races that need two goroutines running at the same instant, or a preemption inside one statement, are out of reach"),
 "C16": ("exploration", "6.C16",
   "The real ledgerMonitor publishes into a recording publisher that is a scheduling point. At each publish the decoded wire payload must describe an entry already committed at that step (transaction content, revert roles, metadata target and payload); previews publish nothing; in every generation that ended in an orderly way each committed entry has been described by at least one event by the end of the generation.",
   "at-least-once is judged for crash-free generations only (no outbox in the code; the statement does not quantify over crashes)"),
}

NA = {
 "C01": "pure function of (program, variable binding, balance table): no schedule, clock, fault or history for a simulator to sample (its history-level cousin is C02)",
 "C03": "pure function of one send statement and its inputs (rounding, caps, kept, portions)",
 "C04": "the mechanism is PL/pgSQL triggers and SQL read queries inside PostgreSQL; the sandbox has no PostgreSQL, Docker or embedded SQL engine, and checking the simulator's own stub projections would test the stub",
 "C09": "pure function of the request (postings -> script -> VM -> transaction); posting-mode requests are part of the simulated workload but no claim is made",
 "C12": "quantifies over inputs only (fuzzing territory); panics seen during simulation are counted in evidence as an observation",
 "C17": "pure function of (collection, page size, filter); page fetches are SQL against PostgreSQL, not runnable here",
 "C18": "ProcessBulk is a sequential loop: pure function of the element list",
 "C19": "pure function of (route, method, flag): no state, schedule or fault",
 "C20": "pure function of the filter expression to SQL text; needs a recording SQL driver and input generation, not simulation",
}

import os
have = [p for p in sorted(CHECKS) if p in os.environ.get("CLAIM", "C02,C05,C06,C07,C08,C10,C11,C13,C14,C15,C16").split(",")]

m = {
 "version": 1,
 "setup_cmd": "./check build",
 "hooks": {
  "guard": "verif (Go build tag)",
  "enable": "go1.26.8 test -tags verif -c (the simulator module github.com/formancehq/ledger/verifsim under /verif/sim has replace directives to /repo, so every build compiles /repo's working tree)",
  "baseline_off_cmd": "./baseline_off.sh",
  "source_commits": hooks,
  "add_only": True,
 },
 "engines": [
  {"name": "ledger-sim", "path": "sim/", "serves_properties": [p for p in have if p not in ("C15",)],
   "kind_free_text": "deterministic simulator: synctest bubble + one-runnable-at-a-time seeded scheduler over the real Commander/locker/batcher/runner/VM, simulated PostgreSQL store with crash/restart and store faults, rapid as generator and shrinker"},
  {"name": "locker-sim", "path": "sim/locker.go", "serves_properties": ["C15"],
   "kind_free_text": "deterministic simulator driving command.DefaultLocker alone with cancellations at hook points"},
 ],
 "checks": [],
 "notes": "Exit codes: 0 held (possibly KNOWN-FINDING lines), 1 VIOLATION, 2 harness trouble (build, watchdog, a hung or irreproducible run with nothing reproducible found). VERIF_SEED selects the PRNG stream (default 1). Replay: ./check replay <file>. Determinism self-test of both binaries over all checks: ./check selftest [n]. Eleven genuine defects were found on the pinned tree and repaired by fix: commits in /repo; they are listed in known_findings.json (status fixed, suppressing nothing) and DESIGN.md sections 11 and 14.2. What the checks catch and what they miss is recorded per seeded change in seeded/*/meta.json and DESIGN.md section 14.5 (13 rounds, 102 independent breaking changes), false-alarm hunts in benign/ and section 14.6.",
 "not_applicable": [{"property_id": k, "reason": v} for k, v in sorted(NA.items())],
}
for p in have:
    cat, ref, text, note = CHECKS[p]
    m["checks"].append({
     "property_id": p,
     "quick_cmd": "./check %s quick" % p,
     "thorough_cmd": "./check %s thorough" % p,
     "evidence_file": "evidence/%s.json" % p,
     "replay_cmd_template": "./check replay {path}",
     "engine": "locker-sim" if p == "C15" else "ledger-sim",
     "level_claimed": {"category": cat, "text": text, "design_ref": ref},
     "level_note": note,
     "technique": TECH,
    })
for p in CHECKS:
    if p not in have:
        m["not_applicable"].append({"property_id": p, "reason": "check not built yet (planned, see DESIGN.md)"})
json.dump(m, open("/verif/MANIFEST.json", "w"), indent=1)
print("claimed:", have)
