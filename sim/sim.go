package verifsim

import (
	"context"
	"encoding/json"
	"fmt"
	"math/big"
	"os"
	"runtime/debug"
	"sort"
	"strings"
	"sync"
	"testing"
	"testing/synctest"
	"time"

	"github.com/ThreeDotsLabs/watermill/message"
	ledger "github.com/formancehq/ledger/internal"
	"github.com/formancehq/ledger/internal/bus"
	"github.com/formancehq/ledger/internal/engine/command"
	"github.com/formancehq/ledger/internal/verifhook"
	"github.com/formancehq/stack/libs/go-libs/logging"
	"github.com/formancehq/stack/libs/go-libs/metadata"
)

// ---------------------------------------------------------------------------
// One simulated run of the ledger write path.
// ---------------------------------------------------------------------------

type Violation struct {
	Prop   string `json:"property"`
	Class  string `json:"class"`
	Detail string `json:"detail"`
	Step   int    `json:"step"`
	// Feature strings used to match known findings (DESIGN.md section 8).
	Features []string `json:"features,omitempty"`
}

func (v Violation) Sig() string { return v.Prop + "/" + v.Class }

type OpRecord struct {
	ID      int
	Gen     int
	Client  int
	Idx     int
	Prelude bool
	Op      *Op
	Name    string
	Marker  string
	Ledger  int

	Invoked    bool
	Returned   bool
	InvokeStep int
	ReturnStep int
	Err        error
	ErrClass   string
	Panicked   bool
	PanicText  string
	Tx         *ledger.Transaction
	// resolved arguments
	TargetTx  *big.Int
	TargetKey string
	Script    *ledger.RunScript
	Cancelled bool

	cancel context.CancelFunc
	yields int

	storeCalls   map[string]int // per method, for faults addressed to this request
	storeFaulted bool           // such a fault fired

	balSnap   map[string]*big.Int
	balReads  map[string]bool
	balStep   int
	balRows   int
	acctReads map[string]map[string]string

	lockRead, lockWrite   []string
	lockReqStep           int
	lockGrantStep         int
	lockReleaseStep       int
	lockGranted, unlocked bool

	// Entry matched at return time (C06): index into the medium's rows, -1 if none.
	entryAtReturn int
	published     int
}

type PubRecord struct {
	Step    int
	Gen     int
	Ledger  int
	Topic   string
	Payload []byte
	Op      *OpRecord
	RowsAt  int // number of rows committed in the ledger when the event was published
}

type ledgerInst struct {
	idx         int
	name        string
	m           *Medium
	view        *storeView
	commander   *command.Commander
	locker      *lockerWrap
	running     bool
	runnerDead  bool
	writeFailed bool
	writeCalls  int
	pubCalls    int
	closing     bool // Commander.Close() has been called by a shutdown task
	runnerTask  *Task
}

type Sim struct {
	in      *Input
	target  string // property whose violation stops the run
	sched   *Sched
	media   []*Medium
	gens    []*Generation
	cur     *Generation
	ops     []*OpRecord
	events  []*PubRecord
	counter map[string]int
	viols   []Violation
	stop    bool
	base    context.Context

	faults   []Fault
	pointCnt map[string]int
	sfaults  map[string]int

	chain      []*chainState // per ledger incremental C05 state
	constraint []string

	harnessErr           string
	spinning             int
	stuckProbed, probing bool
	cmu, vmu             sync.Mutex // counters / ops, violations: see count
	abandoned            string
	idleAdvance          int // escalating clock advances tried in the current stall
	startTime            time.Time
	simTime              time.Duration
}

type Result struct {
	Violations []Violation
	Digest     string
	Lines      []string
	Steps      int
	Preempts   int
	Counters   map[string]int
	HarnessErr string
	Abandoned  string // the run says nothing (see Sim.stuck)
	SimTime    time.Duration
	Decisions  []int // every scheduling decision as an explicit choice code (for the shrinker)
	Ops        []*OpRecord
	Media      []*Medium
	Events     []*PubRecord
	Gens       []*Generation
	StateHash  string
	sim        *Sim
}

// Release drops what the run holds on to. Goroutines left behind by a simulated process death
// stay blocked for ever and keep the Sim reachable; emptying it keeps their cost to a stack each.
func (r *Result) Release() {
	if s := r.sim; s != nil {
		s.ops, s.events, s.media, s.chain, s.gens, s.cur, s.in = nil, nil, nil, nil, nil, nil, nil
		s.counter, s.viols, s.faults, s.pointCnt, s.sfaults, s.constraint = nil, nil, nil, nil, nil, nil
		if s.sched != nil {
			s.sched.lines, s.sched.tasks, s.sched.parked, s.sched.choices = nil, nil, nil, nil
		}
	}
	r.Ops, r.Media, r.Events, r.Gens, r.Lines, r.sim = nil, nil, nil, nil, nil, nil
}

// count: counters are written by whichever task is running; a broken engine can make two tasks
// run at the same time (woken together, no hook in between), hence the mutex.
func (s *Sim) count(k string) {
	s.cmu.Lock()
	s.counter[k]++
	s.cmu.Unlock()
}

// countLocked may be called by several goroutines woken in the same step.
func (s *Sim) countLocked(k string) { s.count(k) }
func (s *Sim) countN(k string, n int) {
	s.cmu.Lock()
	s.counter[k] += n
	s.cmu.Unlock()
}

func (s *Sim) wants(prop string) bool { return s.target == "" || s.target == prop || s.target == "*" }

func (s *Sim) violate(prop, class, detail string, features ...string) {
	s.vmu.Lock()
	defer s.vmu.Unlock()
	for _, v := range s.viols {
		if v.Prop == prop && v.Class == class {
			return
		}
	}
	s.viols = append(s.viols, Violation{Prop: prop, Class: class, Detail: detail, Step: s.sched.step, Features: features})
	if s.target == prop || s.target == "*" {
		s.stop = true
	}
}

func (s *Sim) noteConstraint(ledgerName, kind, id string) {
	s.constraint = append(s.constraint, fmt.Sprintf("%s:%s:%s", ledgerName, kind, id))
	s.count("probe.store-constraint-refusal")
}

func (s *Sim) storeFault(ledgerName, method string, nth int) int {
	return s.sfaults[fmt.Sprintf("%s/%s/%d", ledgerName, method, nth)]
}

// opStoreFault: faults addressed to one request (StoreFail.OpTag).
func (s *Sim) opStoreFault(op *OpRecord, method string) int {
	if op == nil {
		return 0
	}
	if op.storeCalls == nil {
		op.storeCalls = map[string]int{}
	}
	op.storeCalls[method]++
	m := s.sfaults[fmt.Sprintf("op:%s/%s/%d", op.Name, method, op.storeCalls[method])]
	if m != 0 {
		op.storeFaulted = true
	}
	return m
}

func ledgerName(i int) string { return fmt.Sprintf("L%d", i) }

// mandatorySites can never be switched off: several goroutines may be woken by
// one action right before them (batch completion, lock release) and must be
// serialised by the scheduler before they touch shared state.
var mandatorySites = map[string]bool{"run.done": true, "exec.persisted": true, "lock.granted": true, "lock.cancelled": true, "append.lockwait": true}

// allHookSites lists the verifhook sites of /repo that buggify may switch off.
var optionalSites = []string{"exec.ref.taken", "exec.ref.checked", "exec.locked", "exec.balances", "exec.txid",
	"revert.taken", "revert.loaded", "append.chained", "append.done", "run.ik.taken", "run.ik.checked",
	"lock.enter", "lock.release"}

func newSim(in *Input, target string, maxSteps int) *Sim {
	off := map[string]bool{}
	for _, p := range in.Cfg.SitesOff {
		if !mandatorySites[p] {
			off[p] = true
		}
	}
	for _, p := range in.Cfg.MaskSites {
		if !mandatorySites[p] {
			off[p] = true
		}
	}
	s := &Sim{
		in:       in,
		target:   target,
		sched:    newSched(in.Choices, off, maxSteps),
		counter:  map[string]int{},
		pointCnt: map[string]int{},
		sfaults:  map[string]int{},
		faults:   append([]Fault(nil), in.Faults...),
	}
	s.sched.tailSeed, s.sched.tailPct = in.TailSeed, in.TailPct
	s.sched.pctSeed, s.sched.pctDepth, s.sched.pctSpan = in.PCTSeed, in.PCTDepth, in.PCTSpan
	nl := in.Cfg.Ledgers
	if nl < 1 {
		nl = 1
	}
	for i := 0; i < nl; i++ {
		s.media = append(s.media, newMedium(ledgerName(i)))
		s.chain = append(s.chain, &chainState{})
	}
	if in.Cfg.TxIDBase != "" {
		if base, ok := new(big.Int).SetString(in.Cfg.TxIDBase, 10); ok {
			for i, m := range s.media {
				s.seedHistory(i, m, base)
			}
		}
	}
	for _, f := range in.SFaults {
		if f.OpTag != "" {
			if f.Nth > 0 {
				s.sfaults[fmt.Sprintf("op:%s/%s/%d", f.OpTag, f.Method, f.Nth)] = f.Mode
			}
			continue
		}
		if f.Ledger >= 0 && f.Ledger < nl && f.Nth > 0 {
			for k := 0; k < max(1, f.Len); k++ {
				s.sfaults[fmt.Sprintf("%s/%s/%d", ledgerName(f.Ledger), f.Method, f.Nth+k)] = f.Mode
			}
		}
	}
	return s
}

// hook is installed as verifhook.Hook.
func (s *Sim) hook(ctx context.Context, point string) {
	t := taskFrom(ctx)
	if t == nil {
		return
	}
	s.sched.yieldTask(t, point, mandatorySites[point])
}

// Run executes the input inside a synctest bubble and returns what happened.
func Run(t *testing.T, in *Input, target string, keepLog bool) (res *Result) {
	s := newSim(in, target, 4000)
	s.sched.keepDebug = keepLog && os.Getenv("SIM_DEBUG") != ""
	func() {
		defer func() {
			if e := recover(); e != nil {
				msg := fmt.Sprint(e)
				// Goroutines left behind by a simulated process death are expected
				// (DESIGN.md section 2.2).
				if strings.Contains(msg, "blocked goroutines remain") || strings.Contains(msg, "deadlock: main bubble goroutine has exited") {
					return
				}
				s.harnessErr = "panic outside the simulated system: " + msg + "\n" + string(debug.Stack())
			}
		}()
		synctest.Test(t, func(t *testing.T) {
			s.root()
		})
	}()
	verifhook.Hook = nil
	runProgress.Add(1)
	res = &Result{
		Violations: s.viols,
		Digest:     s.sched.Digest(),
		Steps:      s.sched.step,
		Preempts:   s.sched.preempts,
		Counters:   s.counter,
		HarnessErr: s.harnessErr,
		Abandoned:  s.abandoned,
		SimTime:    s.simTime,
		Decisions:  append([]int(nil), s.sched.made...),
		Ops:        s.ops,
		Media:      s.media,
		Events:     s.events,
		Gens:       s.gens,
		sim:        s,
	}
	if keepLog {
		res.Lines = s.sched.lines
	}
	res.StateHash = s.stateHash()
	return res
}

func (s *Sim) root() {
	s.startTime = time.Now()
	s.base = logging.ContextWithLogger(context.Background(), noopLogger{})
	verifhook.Hook = s.hook
	fineOn := map[string]bool{}
	for _, f := range s.in.Cfg.FineSites {
		fineOn[f] = true
	}
	if len(fineOn) > 0 {
		s.count("fine.runs")
		if s.in.Cfg.FineHeld {
			s.count("fine.runs-parking-under-mutex")
		}
	}
	switch {
	case s.in.PCTDepth > 0:
		s.count("sched.style.priority")
	case s.in.TailPct > 0:
		s.count("sched.style.list+tail")
	default:
		s.count("sched.style.list")
	}
	installFineHooks(s.sched, fineOn, s.in.Cfg.FineHeld, s.countLocked)
	defer uninstallFineHooks()
	verifhook.Dead = func(ctx context.Context) bool {
		t := taskFrom(ctx)
		return t != nil && t.Gen != nil && t.Gen.dead.Load()
	}
	defer func() { s.simTime = time.Since(s.startTime) }()

	s.startGeneration(0)
	for {
		quiesce()
		if s.stop || s.harnessErr != "" {
			break
		}
		if c := s.in.Cfg.ClockCreepNs; c > 0 {
			simSleep(time.Duration(c))
			quiesce()
		}
		s.sched.step++
		if s.sched.step > s.sched.maxSteps {
			if len(s.in.Cfg.FineSites) > 0 {
				s.count("fine.step-cap") // statement-level yields inside a loop: the run is abandoned
				break
			}
			s.harnessErr = fmt.Sprintf("step cap %d exceeded", s.sched.maxSteps)
			break
		}
		// a runner that died on a store failure is a process death
		if g := s.cur; g != nil && !g.dead.Load() {
			died := false
			for _, li := range g.ledgers {
				if li.runnerDead {
					died = true
				}
			}
			if g.shutdownDone && !died && !g.bootFail && onlyLockWaiters(s.sched.snapshotParked()) {
				s.sched.Logf("step %d: shutdown complete gen=%d", s.sched.step, g.Idx)
				s.kill(g, !g.orderly)
				if !s.nextGeneration() {
					break
				}
				continue
			}
			if died || g.bootFail {
				s.sched.Logf("step %d: process death (runner or boot failure) gen=%d", s.sched.step, g.Idx)
				s.count("fault.process-death")
				s.kill(g, true)
				if !s.nextGeneration() {
					break
				}
				continue
			}
		}
		ps := s.sched.snapshotParked()
		for _, p := range ps {
			if !p.counted {
				p.counted = true
				s.pointCnt[p.point]++
				p.pointNth = s.pointCnt[p.point]
				if p.cur != nil {
					p.cur.yields++
				}
			}
		}
		if s.applyOpCancels(ps) {
			continue
		}
		if f, ok := s.dueFault(ps); ok {
			if s.applyFault(f, ps) {
				continue
			}
			if s.cur == nil {
				break
			}
			continue
		}
		if len(ps) == 0 {
			if s.generationFinished() {
				// orderly end of the generation: Commander.Close() runs as a task (it may have
				// background work to drain, which the scheduler keeps serving), then the process is gone
				g := s.cur
				if !g.shutdown {
					g.shutdown, g.orderly = true, true
					s.sched.Logf("step %d: orderly stop of gen=%d", s.sched.step, g.Idx)
					s.count("restart.orderly")
					s.spawnShutdown(g)
					continue
				}
			}
			// Nothing is runnable although work is outstanding. Before calling that a stall, let
			// simulated time pass (discrete-event style: the engine may be waiting for a timer --
			// a linger delay, a retry back-off -- that only fires when the clock moves).
			if s.idleAdvance < len(idleSteps) {
				d := idleSteps[s.idleAdvance]
				s.idleAdvance++
				s.sched.Logf("step %d: idle, clock +%s", s.sched.step, d)
				s.count("clock.advanced-while-idle")
				simSleep(d)
				continue
			}
			if g := s.cur; s.generationFinished() && g.shutdown && !g.shutdownDone {
				s.harnessErr = fmt.Sprintf("Commander.Close() of generation %d does not return although every request has been answered", g.Idx)
				break
			}
			s.stuck()
			if s.probing {
				s.probing = false
				continue
			}
			break
		}
		// only waiters of a mutex whose holder is blocked for good (e.g. in Append after the runner
		// has been closed) are left: nothing can make progress any more
		if onlyLockWaiters(ps) {
			s.spinning++
			if s.spinning > 2*len(ps)+2 {
				// as for an empty set of runnable tasks: whoever holds the mutex may be waiting for a timer
				if s.idleAdvance < len(idleSteps) {
					d := idleSteps[s.idleAdvance]
					s.idleAdvance++
					s.spinning = 0
					s.sched.Logf("step %d: idle (only mutex waiters), clock +%s", s.sched.step, d)
					s.count("clock.advanced-while-idle")
					simSleep(d)
					continue
				}
				s.stuck()
				if s.probing {
					s.probing = false
					s.spinning = 0
					continue
				}
				break
			}
		} else {
			s.spinning = 0
			s.idleAdvance = 0
		}
		p := s.sched.pick(ps)
		s.sched.Logf("step %d: run %s @%s", s.sched.step, p.Name, p.point)
		s.sched.last = p
		if p.alias != nil {
			s.sched.last = p.alias
		}
		p.counted = false
		s.sched.release(p)
	}
	if s.cur != nil && !s.cur.dead.Load() {
		s.kill(s.cur, false)
	}
	s.sched.mu.Lock()
	tp := s.sched.taskPanic
	s.sched.mu.Unlock()
	if tp != "" && s.harnessErr == "" {
		s.harnessErr = tp
	}
	if s.harnessErr == "" {
		s.finalOracles()
	}
}

func (s *Sim) nextGeneration() bool {
	if len(s.gens) < len(s.in.Gens) {
		s.startGeneration(len(s.gens))
		return true
	}
	s.cur = nil
	return false
}

func (s *Sim) generationFinished() bool {
	g := s.cur
	if g == nil {
		return true
	}
	s.sched.mu.Lock()
	defer s.sched.mu.Unlock()
	if !g.bootDone {
		return false
	}
	for _, t := range g.clients {
		if !t.finished {
			return false
		}
	}
	return true
}

// stuck is reached when nothing is parked, the generation is not finished and no
// fault is pending: some request is blocked in engine code for ever.
// idleSteps: how far the clock is moved, step by step, while nothing is runnable (71 s in all).
var idleSteps = []time.Duration{time.Millisecond, 10 * time.Millisecond, 100 * time.Millisecond, time.Second, 10 * time.Second, time.Minute}

func (s *Sim) stuck() {
	var blocked []string
	inLock := false
	s.sched.mu.Lock()
	for _, t := range s.cur.clients {
		if !t.finished {
			blocked = append(blocked, fmt.Sprintf("%s(last@%s)", t.Name, t.point))
			if strings.HasPrefix(t.point, "lock.") || (t.cur != nil && t.cur.lockReqStep > 0 && !t.cur.lockGranted) {
				inLock = true
			}
		}
	}
	s.sched.mu.Unlock()
	sort.Strings(blocked)
	s.sched.Logf("step %d: STUCK blocked=%v", s.sched.step, blocked)
	s.count("stuck")
	if inLock {
		// stop whatever the target is: the run cannot continue
		s.viols = append(s.viols, Violation{Prop: "C15", Class: "request-never-granted", Detail: "ledger run: requests blocked for ever in the account locker: " + strings.Join(blocked, " "), Step: s.sched.step})
		return
	}
	// Requests wait for a persistence that never comes although nothing is in flight: a log that
	// was chained has been lost on its way to the store. Before giving up, one more write is
	// issued on every ledger: what the engine hands over next shows whether the lost log left a
	// hole in the ids (C05's hand-off check); only if that tells nothing is this harness trouble.
	if !s.stuckProbed {
		s.stuckProbed = true
		g := s.cur
		for li := range g.ledgers {
			ops := []Op{{Kind: "setmeta", Ledger: li, Target: 0, Key: "k0", Value: "probe-after-stuck"}}
			ct := s.sched.spawn(g.ctx, g, fmt.Sprintf("g%d.probe%d", g.Idx, li), func(ctx context.Context, t *Task) {
				s.runClient(ctx, t, g, 1000+li, ops)
			})
			g.clients = append(g.clients, ct)
		}
		s.probing = true
		return
	}
	if s.cur != nil && s.cur.Idx > 0 {
		// After a simulated restart a stall may be an artefact of the simulation: package-level
		// state of the code under test (a table of requests in flight, say) survives a simulated
		// process death, which no real process death lets it do. The run is given up and counted;
		// a check that found nothing but such runs ends in harness trouble.
		s.abandoned = "stall after a simulated restart: " + strings.Join(blocked, " ")
		s.stop = true
		return
	}
	s.harnessErr = "stuck outside the locker: " + strings.Join(blocked, " ")
}

// ---------------------------------------------------------------------------
// generations
// ---------------------------------------------------------------------------

func (s *Sim) startGeneration(idx int) {
	plan := s.in.Gens[idx]
	ctx, cancel := context.WithCancel(s.base)
	g := &Generation{Idx: idx, ctx: ctx, cancel: cancel}
	s.gens = append(s.gens, g)
	s.cur = g
	cache := s.in.Cfg.CacheSize
	if cache < 1 {
		cache = largeCache
	}
	compiler := command.NewCompiler(cache)
	for i, m := range s.media {
		li := &ledgerInst{idx: i, name: m.Name, m: m}
		li.view = &storeView{sim: s, li: li, m: m, gen: g}
		li.locker = &lockerWrap{sim: s, inner: command.NewDefaultLocker(), gen: g}
		pub := &simPublisher{sim: s, li: li, gen: g}
		var pubIface message.Publisher = pub
		li.commander = command.New(li.view, li.locker, compiler, command.NewReferencer(), bus.NewLedgerMonitor(pubIface, m.Name))
		if bs := s.in.Cfg.BatchSize; bs > 0 {
			li.commander.Batcher.VerifSetMaxBatchSize(bs)
		}
		g.ledgers = append(g.ledgers, li)
	}
	s.sched.Logf("step %d: start generation %d", s.sched.step, idx)
	bootTask := s.sched.spawn(ctx, g, fmt.Sprintf("g%d.boot", idx), func(ctx context.Context, t *Task) {
		for _, li := range g.ledgers {
			if err := s.bootLedger(ctx, g, li); err != nil {
				if !g.dead.Load() {
					s.sched.Logf("  boot %s failed: %s", li.name, classify(err))
					g.bootFail = true
				}
				return
			}
		}
		if g.dead.Load() {
			return
		}
		// prelude (first generation only): sequential set-up requests
		if idx == 0 && len(s.in.Prelude) > 0 {
			s.sched.noChoice = true
			s.runClient(ctx, t, g, -1, s.in.Prelude)
			s.sched.noChoice = false
			if g.dead.Load() {
				return
			}
		}
		for ci, ops := range plan.Clients {
			ci, ops := ci, ops
			ct := s.sched.spawn(ctx, g, fmt.Sprintf("g%d.c%d", idx, ci), func(ctx context.Context, t *Task) {
				s.runClient(ctx, t, g, ci, ops)
			})
			g.clients = append(g.clients, ct)
		}
		s.sched.mu.Lock()
		g.bootDone = true
		s.sched.mu.Unlock()
	})
	g.boot = append(g.boot, bootTask)
}

func (s *Sim) bootLedger(ctx context.Context, g *Generation, li *ledgerInst) (err error) {
	defer func() {
		if e := recover(); e != nil {
			err = fmt.Errorf("panic during Init: %v", e)
			if !g.dead.Load() {
				s.notePanic(nil, "init", e)
			}
		}
	}()
	if len(li.m.Rows) > 0 {
		s.count("probe.restart-with-nonempty-log")
	}
	if err := li.commander.Init(ctx); err != nil {
		return err
	}
	// The runner's context carries the worker task: InsertLogs is called with it.
	s.sched.mu.Lock()
	wt := &Task{ID: s.sched.nextID, Name: fmt.Sprintf("g%d.%s.worker", g.Idx, li.name), Gen: g, wake: make(chan struct{})}
	s.sched.nextID++
	s.sched.tasks = append(s.sched.tasks, wt)
	s.sched.mu.Unlock()
	li.runnerTask = wt
	rctx := context.WithValue(ctx, taskCtxKey, wt)
	li.running = true
	loop := s.sched.adhocTask(g, fmt.Sprintf("g%d.%s.loop", g.Idx, li.name))
	go func() {
		// the runner loop is a task too: in fine-grained mode it can be parked between two of its
		// statements (e.g. inside Batcher.nextBatch); with the plain binary it never parks
		registerGoroutine(loop)
		defer unregisterGoroutine()
		defer func() {
			if e := recover(); e != nil {
				// job.Runner re-panics on a failed job: in production the process dies here.
				li.runnerDead = true
			}
		}()
		li.commander.Run(rctx)
	}()
	return nil
}

// kill marks the generation dead (crash or orderly stop). From here on its
// goroutines are zombies: every seam they touch returns without effect.
func (s *Sim) kill(g *Generation, crashed bool) {
	if g.dead.Load() {
		return
	}
	g.dead.Store(true)
	g.deadStep = s.sched.step
	g.crashed = crashed
	g.cancel()
	for _, p := range s.sched.snapshotParked() {
		if p.Gen == g {
			s.sched.release(p)
		}
	}
	for _, li := range g.ledgers {
		if li.running && !li.runnerDead && !li.closing {
			quiesce()
			if li.runnerDead {
				continue
			}
			// clean-up only (stops the runner and its worker pool). Not on the scheduler's own
			// goroutine: the runner loop of a dead process may itself be stopped for good (a zombie
			// of the fine-grained binary that met a taken mutex), and Close would wait for it for ever.
			c := li.commander
			go c.Close()
		}
	}
	quiesce()
}

// ---------------------------------------------------------------------------
// faults
// ---------------------------------------------------------------------------

func (s *Sim) dueFault(ps []*Task) (Fault, bool) {
	if len(s.faults) == 0 || s.cur == nil {
		return Fault{}, false
	}
	// faults are independent of each other: the first one (in plan order) whose
	// trigger is met fires and is consumed
	for i, f := range s.faults {
		due := false
		if f.OpTag != "" {
			inflight := false
			for _, o := range s.ops {
				if o.Op.Tag == f.OpTag && o.Invoked && !o.Returned && o.Gen == s.cur.Idx {
					inflight = true
				}
			}
			if inflight {
				if f.Point == "" {
					due = true
				}
				for _, p := range ps {
					if p.point == f.Point {
						due = true
					}
				}
			}
		} else if f.Point == "" {
			due = s.sched.step >= f.Step
		} else {
			for _, p := range ps {
				if p.point == f.Point && p.pointNth == f.Nth {
					due = true
				}
			}
		}
		if due {
			s.faults = append(append([]Fault(nil), s.faults[:i]...), s.faults[i+1:]...)
			return f, true
		}
	}
	return Fault{}, false
}

// applyFault returns true when the scheduler should go back to quiescence
// without releasing a task in this step.
func (s *Sim) applyFault(f Fault, ps []*Task) bool {
	switch f.Kind {
	case "crash":
		g := s.cur
		s.sched.Logf("step %d: FAULT crash gen=%d", s.sched.step, g.Idx)
		s.count("fault.crash")
		s.classifyCrashWindow(ps)
		s.kill(g, true)
		s.nextGeneration()
		return s.cur != nil
	case "shutdown":
		// Orderly stop while requests may be in flight: Commander.Close() runs as a task of its
		// own (it waits for the batch worker, which the scheduler must keep serving); when it
		// has returned the process is gone.
		g := s.cur
		if g.shutdown {
			return true
		}
		g.shutdown = true
		s.sched.Logf("step %d: FAULT shutdown gen=%d", s.sched.step, g.Idx)
		s.count("fault.shutdown")
		s.classifyCrashWindow(ps)
		s.spawnShutdown(g)
		return true
	case "clock", "clockns":
		d := time.Duration(f.Arg) * time.Microsecond
		if f.Kind == "clockns" {
			d = time.Duration(f.Arg)
		}
		if d <= 0 {
			return true
		}
		s.sched.Logf("step %d: FAULT clock +%s", s.sched.step, d)
		s.count("fault.clock-jump")
		simSleep(d)
		return true
	case "cancelBlocked":
		var blocked []*Task
		s.sched.mu.Lock()
		parked := map[*Task]bool{}
		for _, p := range s.sched.parked {
			parked[p] = true
		}
		for _, t := range s.cur.clients {
			if !t.finished && !parked[t] && t.cur != nil && t.cur.Invoked && !t.cur.Returned && !t.cur.Cancelled {
				blocked = append(blocked, t)
			}
		}
		s.sched.mu.Unlock()
		if len(blocked) == 0 {
			return true
		}
		t := blocked[int(f.Arg)%len(blocked)]
		where := "blocked-in-engine"
		if t.cur.lockReqStep > 0 && !t.cur.lockGranted {
			where = "queued-in-locker"
			s.count("probe.cancel-while-queued")
		}
		s.sched.Logf("step %d: FAULT cancel %s (%s)", s.sched.step, t.cur.Name, where)
		s.count("fault.cancel." + where)
		t.cur.Cancelled = true
		t.cur.cancel()
		return true
	}
	return true
}

func onlyLockWaiters(ps []*Task) bool {
	for _, p := range ps {
		if !strings.HasSuffix(p.point, ".lockwait") {
			return false
		}
	}
	return true
}

func (s *Sim) spawnShutdown(g *Generation) {
	s.sched.spawn(g.ctx, g, fmt.Sprintf("g%d.shutdown", g.Idx), func(ctx context.Context, t *Task) {
		for _, li := range g.ledgers {
			if li.running && !li.runnerDead && !g.dead.Load() {
				li.closing = true
				li.commander.Close()
			}
		}
		g.shutdownDone = true
	})
}

// applyOpCancels cancels requests whose CancelAtYield count has been reached.
func (s *Sim) applyOpCancels(ps []*Task) bool {
	for _, p := range ps {
		if p.cur != nil && p.cur.Op.CancelAtYield > 0 && !p.cur.Cancelled && p.cur.Invoked && !p.cur.Returned &&
			p.cur.yields >= p.cur.Op.CancelAtYield && p.Gen == s.cur {
			p.cur.Cancelled = true
			p.cur.cancel()
			s.count("fault.cancel.at-yield")
			s.sched.Logf("step %d: FAULT cancel %s at %s", s.sched.step, p.cur.Name, p.point)
			return true
		}
	}
	return false
}

func (s *Sim) classifyCrashWindow(ps []*Task) {
	inflight := false
	for _, o := range s.ops {
		if o.Invoked && !o.Returned && o.Gen == s.cur.Idx {
			inflight = true
		}
	}
	if inflight {
		s.count("fault.crash.with-requests-in-flight")
	} else {
		s.count("fault.crash.idle")
	}
	for _, p := range ps {
		switch p.point {
		case "store.InsertLogs":
			s.count("fault.crash.before-commit")
		case "store.InsertLogs.post":
			s.count("fault.crash.after-commit-before-ack")
		case "append.chained":
			s.count("fault.crash.chained-not-handed-off")
		case "run.done", "exec.persisted":
			s.count("fault.crash.acked-not-returned")
		}
	}
}

// ---------------------------------------------------------------------------
// publisher seam
// ---------------------------------------------------------------------------

type simPublisher struct {
	sim *Sim
	li  *ledgerInst
	gen *Generation
}

func (p *simPublisher) Publish(topic string, msgs ...*message.Message) error {
	for _, m := range msgs {
		ctx := m.Context()
		if p.gen.dead.Load() {
			return nil
		}
		// The publishing goroutine need not be the request's own (an implementation may publish
		// from a background goroutine): it parks under an identity of its own, remembered as
		// acting for the request's task so that "keep running the same task" still means that.
		p.li.pubCalls++
		wt := p.sim.sched.adhocTask(p.gen, fmt.Sprintf("g%d.%s.pub%d", p.gen.Idx, p.li.name, p.li.pubCalls))
		wt.alias = taskFrom(ctx)
		p.sim.sched.yieldTask(wt, "pub."+topic, true)
		if p.gen.dead.Load() {
			return nil
		}
		rec := &PubRecord{Step: p.sim.sched.step, Gen: p.gen.Idx, Ledger: p.li.idx, Topic: topic,
			Payload: append([]byte(nil), m.Payload...), Op: opFrom(ctx), RowsAt: len(p.li.m.Rows)}
		p.sim.events = append(p.sim.events, rec)
		if rec.Op != nil {
			rec.Op.published++
		}
		p.sim.sched.Logf("  publish %s %s", p.li.name, topic)
		p.sim.onPublish(rec)
	}
	return nil
}

func (p *simPublisher) Close() error { return nil }

// ---------------------------------------------------------------------------
// locker seam: records lock sets and hold intervals, delegates to the real locker
// ---------------------------------------------------------------------------

type lockerWrap struct {
	sim   *Sim
	inner command.Locker
	gen   *Generation
}

func (l *lockerWrap) Lock(ctx context.Context, accounts command.Accounts) (command.Unlock, error) {
	op := opFrom(ctx)
	if op != nil && !l.gen.dead.Load() {
		op.lockRead = append([]string(nil), accounts.Read...)
		op.lockWrite = append([]string(nil), accounts.Write...)
		sort.Strings(op.lockRead)
		sort.Strings(op.lockWrite)
		op.lockReqStep = l.sim.sched.step
		l.sim.sched.Logf("  lock-req %s R=%v W=%v", op.Name, op.lockRead, op.lockWrite)
	}
	// The engine derives the read set from a Go map (arbitrary order). A correct locker is
	// insensitive to that order; a broken one need not be, so the order is fixed here to keep
	// every run a pure function of its inputs (any fixed order is a legal behaviour).
	accounts = command.Accounts{Read: append([]string(nil), accounts.Read...), Write: append([]string(nil), accounts.Write...)}
	sort.Strings(accounts.Read)
	sort.Strings(accounts.Write)
	unlock, err := l.inner.Lock(ctx, accounts)
	if err != nil {
		return nil, err
	}
	if op != nil && !l.gen.dead.Load() {
		op.lockGranted = true
		op.lockGrantStep = l.sim.sched.step
		if op.lockGrantStep > op.lockReqStep {
			l.sim.count("probe.lock-queued")
		}
	}
	return func(ctx context.Context) {
		unlock(ctx)
		if op != nil && !l.gen.dead.Load() {
			op.unlocked = true
			op.lockReleaseStep = l.sim.sched.step
		}
	}, nil
}

// ---------------------------------------------------------------------------
// clients
// ---------------------------------------------------------------------------

func (s *Sim) runClient(ctx context.Context, t *Task, g *Generation, ci int, ops []Op) {
	for i := range ops {
		op := &ops[i]
		rec := &OpRecord{ID: len(s.ops), Gen: g.Idx, Client: ci, Idx: i, Prelude: ci < 0, Op: op, entryAtReturn: -1}
		if ci < 0 {
			rec.Name = fmt.Sprintf("pre.%d", i)
		} else {
			rec.Name = fmt.Sprintf("g%d.c%d.%d", g.Idx, ci, i)
		}
		if op.Tag != "" {
			rec.Name = op.Tag
		}
		rec.Marker = rec.Name
		rec.Ledger = ((op.Ledger % len(s.media)) + len(s.media)) % len(s.media)
		octx, cancel := context.WithCancel(context.WithValue(ctx, opCtxKey, rec))
		rec.cancel = cancel
		t.cur = nil
		s.sched.yieldTask(t, "client.invoke", true)
		if g.dead.Load() {
			cancel()
			return
		}
		s.cmu.Lock()
		s.ops = append(s.ops, rec)
		rec.ID = len(s.ops) - 1
		s.cmu.Unlock()
		t.cur = rec
		rec.Invoked = true
		rec.InvokeStep = s.sched.step
		s.resolveOp(rec, g.ledgers[rec.Ledger])
		s.sched.Logf("  invoke %s: %s%s", rec.Name, op.Summary(), rec.resolvedSummary())
		s.execOp(octx, rec, g.ledgers[rec.Ledger])
		if g.dead.Load() {
			cancel()
			return
		}
		rec.Returned = true
		rec.ReturnStep = s.sched.step
		rec.ErrClass = classify(rec.Err)
		if rec.Panicked {
			rec.ErrClass = "panic"
		}
		s.sched.Logf("  return %s: %s", rec.Name, rec.outcome())
		s.onReturn(rec, g.ledgers[rec.Ledger])
		cancel()
		t.cur = nil
		s.sched.yieldTask(t, "client.return", true)
		if g.dead.Load() {
			return
		}
	}
}

func (r *OpRecord) resolvedSummary() string {
	if r.TargetTx != nil {
		return " ->tx " + r.TargetTx.String()
	}
	if r.TargetKey != "" {
		return " ->" + r.TargetKey
	}
	return ""
}

func (r *OpRecord) outcome() string {
	if r.Panicked {
		return "panic"
	}
	if r.Err != nil {
		return "error:" + r.ErrClass
	}
	if r.Tx != nil {
		return fmt.Sprintf("ok tx=%s postings=%d", r.Tx.ID, len(r.Tx.Postings))
	}
	return "ok"
}

// resolveOp turns schedule-relative arguments (k-th transaction) into concrete
// ones, reading the store as a client would have learnt them from earlier
// responses.
func (s *Sim) resolveOp(rec *OpRecord, li *ledgerInst) {
	op := rec.Op
	ntx := len(li.m.Txs)
	txAt := func(k int) *big.Int {
		k = mod(k, ntx+1)
		if k < ntx {
			return new(big.Int).Set(li.m.Txs[k].ID)
		}
		if ntx == 0 {
			return big.NewInt(0)
		}
		return new(big.Int).Add(li.m.Txs[ntx-1].ID, big.NewInt(1)) // does not exist (yet)
	}
	switch op.Kind {
	case "revert":
		rec.TargetTx = txAt(op.Target)
	case "setmeta", "delmeta":
		if op.OnTx {
			rec.TargetTx = txAt(op.Target)
		} else {
			k := mod(op.Target, s.in.Cfg.Accounts+1)
			if k == s.in.Cfg.Accounts {
				rec.TargetKey = cfgAccount
			} else {
				rec.TargetKey = acctName(k)
			}
		}
	}
}

func mod(a, n int) int {
	if n <= 0 {
		return 0
	}
	return ((a % n) + n) % n
}

func (s *Sim) notePanic(rec *OpRecord, where string, e any) {
	s.count("panic." + where)
}

// execOp calls the real Commander. A panic is recovered the way the HTTP
// middleware would and counts as an error response.
func (s *Sim) execOp(ctx context.Context, rec *OpRecord, li *ledgerInst) {
	defer func() {
		if e := recover(); e != nil {
			rec.Panicked = true
			rec.PanicText = fmt.Sprint(e)
			rec.Err = fmt.Errorf("panic: %v", e)
			if !li.view.dead() {
				s.notePanic(rec, rec.Op.Kind, e)
			}
		}
	}()
	op := rec.Op
	params := command.Parameters{DryRun: op.DryRun, IdempotencyKey: op.IK}
	var ts ledger.Time
	if op.TS != "" {
		if parsed, err := ledger.ParseTime(op.TS); err == nil {
			ts = parsed
		}
	}
	switch op.Kind {
	case "script":
		plain, vars := scriptFor(op)
		rs := ledger.RunScript{
			Script:    ledger.Script{Plain: plain, Vars: vars},
			Timestamp: ts,
			Metadata:  metadata.Metadata{"req": rec.Marker},
			Reference: op.Ref,
		}
		if op.Value != "" {
			rs.Metadata["m"] = op.Value
		}
		if op.MetaKey != "" {
			rs.Metadata[op.MetaKey] = "request"
		}
		rec.Script = cloneScript(&rs)
		rec.Tx, rec.Err = li.commander.CreateTransaction(ctx, params, rs)
	case "postings":
		td := ledger.TransactionData{Metadata: metadata.Metadata{"req": rec.Marker}, Timestamp: ts, Reference: op.Ref}
		for _, p := range op.Postings {
			amt, ok := new(big.Int).SetString(p.Amount, 10)
			if !ok {
				amt = big.NewInt(1)
			}
			td.Postings = append(td.Postings, ledger.NewPosting(acctName(p.Src), acctName(p.Dst), assetName(p.Asset), amt))
		}
		rs := ledger.TxToScriptData(td, false)
		rec.Script = cloneScript(&rs)
		rec.Tx, rec.Err = li.commander.CreateTransaction(ctx, params, rs)
	case "revert":
		rec.Tx, rec.Err = li.commander.RevertTransaction(ctx, params, rec.TargetTx, op.Force)
	case "setmeta":
		md := metadata.Metadata{"sreq": rec.Marker}
		if op.Key != "" {
			md[op.Key] = op.Value
		}
		if op.OnTx {
			rec.Err = li.commander.SaveMeta(ctx, params, ledger.MetaTargetTypeTransaction, rec.TargetTx, md)
		} else {
			rec.Err = li.commander.SaveMeta(ctx, params, ledger.MetaTargetTypeAccount, rec.TargetKey, md)
		}
	case "delmeta":
		if op.OnTx {
			rec.Err = li.commander.DeleteMetadata(ctx, params, ledger.MetaTargetTypeTransaction, rec.TargetTx, op.Key)
		} else {
			rec.Err = li.commander.DeleteMetadata(ctx, params, ledger.MetaTargetTypeAccount, rec.TargetKey, op.Key)
		}
	default:
		rec.Err = fmt.Errorf("unknown op kind %q", op.Kind)
	}
}

// seedHistory puts one earlier transaction into a ledger's durable medium, built with the
// repository's own constructors and chained as the first entry, as if an earlier process
// had written it.
func (s *Sim) seedHistory(li int, m *Medium, base *big.Int) {
	at, _ := ledger.ParseTime("1999-12-31T23:59:59Z")
	tx := ledger.NewTransaction().WithID(new(big.Int).Set(base)).WithDate(at).
		WithPostings(ledger.NewPosting("world", "seed", "USD", big.NewInt(1))).WithMetadata(metadata.Metadata{"req": "seed"})
	cl := ledger.NewTransactionLogWithDate(tx, map[string]metadata.Metadata{}, at).ChainLog(nil)
	raw, _ := json.Marshal(cl.Data)
	norm, generic, _ := normaliseJSON(raw)
	r := &Row{ID: big.NewInt(0), Type: cl.Type.String(), Hash: cl.Hash, Date: cl.Date.Time.UTC(), Data: norm, Orig: cl, Gen: -1, Batch: -1}
	m.Rows = append(m.Rows, r)
	_ = m.project(r, generic, 0)
	c := s.chain[li]
	c.init()
	e, _ := decodeEntry(0, r)
	c.entries = append(c.entries, e)
	c.byMarker[e.Marker] = append(c.byMarker[e.Marker], e)
	c.byMatch[e.MatchKey] = append(c.byMatch[e.MatchKey], e)
	c.byTxID[e.Tx.ID.String()] = e
	applyPostings(c.model, e.Tx.Postings)
	c.nextTx = new(big.Int).Add(base, big.NewInt(1)).Int64()
}

// cloneScript keeps a pristine copy of a request: the engine consumes the variable map it is
// given (ParseVariablesJSON deletes the entries it has used).
func cloneScript(rs *ledger.RunScript) *ledger.RunScript {
	c := *rs
	c.Vars = map[string]string{}
	for k, v := range rs.Vars {
		c.Vars[k] = v
	}
	c.Metadata = metadata.Metadata{}
	for k, v := range rs.Metadata {
		c.Metadata[k] = v
	}
	return &c
}

func (s *Sim) stateHash() string {
	var sb strings.Builder
	for _, m := range s.media {
		for _, r := range m.Rows {
			fmt.Fprintf(&sb, "%s|%s|%s|%x|%s|%s\n", m.Name, r.ID, r.Type, r.Hash, r.Data, r.IK)
		}
	}
	return shortHash(sb.String())
}
