package verifsim

import (
	"encoding/json"
	"os"
	"runtime"
	"strings"
	"sync"
	"sync/atomic"

	"github.com/formancehq/ledger/internal/verifhook"
	"pgregory.net/rapid"
)

// ---------------------------------------------------------------------------
// Fine-grained mode (DESIGN.md section 15). The check builds a second binary
// against a copy of /repo that cmd/finerewrite has instrumented: a potential
// scheduling point after every statement of the engine packages, and around
// every mutex operation. A run enables a small random subset of those sites, so
// that a preemption can land between two adjacent statements -- e.g. between
// releasing a mutex and waking a waiter -- which the hand-placed hooks cannot do.
// ---------------------------------------------------------------------------

// fineSiteList is the list of instrumented sites of the binary ("" when it was
// built against the plain sources).
var fineSiteList []string

func loadFineSites(path string) {
	if path == "" {
		return
	}
	b, err := os.ReadFile(path)
	if err != nil {
		return
	}
	_ = json.Unmarshal(b, &fineSiteList)
}

// runProgress counts finished simulated runs of the process (hang detection in fine-grained mode).
var runProgress atomic.Int64

var goidTasks sync.Map // goroutine id -> *Task

func curGoid() int64 {
	var buf [64]byte
	n := runtime.Stack(buf[:], false)
	const prefix = len("goroutine ")
	if n <= prefix {
		return -1
	}
	var id int64
	for _, c := range buf[prefix:n] {
		if c < '0' || c > '9' {
			break
		}
		id = id*10 + int64(c-'0')
	}
	return id
}

func registerGoroutine(t *Task) { goidTasks.Store(curGoid(), t) }
func unregisterGoroutine()      { goidTasks.Delete(curGoid()) }
func currentTask() *Task {
	v, ok := goidTasks.Load(curGoid())
	if !ok {
		return nil
	}
	return v.(*Task)
}

// installFineHooks wires the rewritten sources' entry points to a scheduler.
func installFineHooks(sc *Sched, on map[string]bool, held bool, count func(string)) {
	if len(fineSiteList) == 0 {
		verifhook.HereHook, verifhook.BeforeLockFnHook, verifhook.HeldHook = nil, nil, nil
		return
	}
	verifhook.HereHook = func(site string) {
		if !on[site] {
			return
		}
		t := currentTask()
		if t == nil || t.sched != sc || (t.held > 0 && !held) || (t.Gen != nil && t.Gen.dead.Load()) {
			return
		}
		if !engineContext() {
			// the simulator itself called this engine function (an oracle recomputing a hash inside
			// the store's commit, the client wrapper classifying an error): not a scheduling point of
			// the system under test -- parking here would tear the simulated store's atomic commit
			// apart, or let a zombie of a crashed process write to the event log
			return
		}
		if t.held > 0 {
			count("fine.parks-holding-a-mutex")
		}
		count("fine.parks")
		count("fine.parks@" + site[strings.LastIndex(site, ":")+1:])
		sc.yieldTask(t, "fine:"+site[strings.LastIndex(site, "/")+1:], true)
	}
	verifhook.BeforeLockFnHook = func(tryLock func() bool, unlock func(), site string) {
		t := currentTask()
		if t == nil || t.sched != sc {
			return
		}
		for spins := 0; !tryLock(); spins++ {
			if t.Gen != nil && t.Gen.dead.Load() {
				// a goroutine of a killed process must neither spin for ever nor block on a mutex
				// (synctest.Wait cannot see through one); the zombies of a process all run at once,
				// so the holder is usually another zombie about to release
				if spins < 200 {
					runtime.Gosched()
					continue
				}
				select {}
			}
			sc.yieldTask(t, "mu.lockwait", true)
		}
		unlock()
	}
	verifhook.HeldHook = func(delta int) {
		if t := currentTask(); t != nil && t.sched == sc {
			t.held += delta
		}
	}
}

func uninstallFineHooks() {
	verifhook.HereHook, verifhook.BeforeLockFnHook, verifhook.HeldHook = nil, nil, nil
}

// genFineSites draws the sites a run enables: nothing, a few sites, or every site of one function.
func genFineSites(t *rapid.T, filter string) []string {
	var cand []string
	for _, s := range fineSiteList {
		if filter == "" || strings.Contains(s, filter) {
			cand = append(cand, s)
		}
	}
	if len(cand) == 0 {
		return nil
	}
	switch rapid.IntRange(0, 7).Draw(t, "fineMode") {
	case 0:
		return nil
	case 1, 2, 3, 4, 5: // sites of one function (functions drawn uniformly, so that small ones get their turn)
		byFn := map[string][]string{}
		var fns []string
		for _, s := range cand {
			k := s[:strings.Index(s, ":")] + ":" + s[strings.LastIndex(s, ":")+1:]
			if _, ok := byFn[k]; !ok {
				fns = append(fns, k)
			}
			byFn[k] = append(byFn[k], s)
		}
		all := byFn[rapid.SampledFrom(fns).Draw(t, "fineFunc")]
		if rapid.IntRange(0, 4).Draw(t, "fineAll") < 2 {
			return all // every statement boundary of the function
		}
		// one to three of them: the other tasks pass through the function undisturbed while one
		// is held at the chosen boundary
		n := rapid.IntRange(1, 3).Draw(t, "nFineOfFunc")
		var out []string
		for i := 0; i < n; i++ {
			out = append(out, rapid.SampledFrom(all).Draw(t, "fineSite"))
		}
		return out
	default:
		n := rapid.IntRange(1, 8).Draw(t, "nFine")
		var out []string
		for i := 0; i < n; i++ {
			out = append(out, rapid.SampledFrom(cand).Draw(t, "fineSite"))
		}
		return out
	}
}

// engineEntryPoints are the simulator functions that call into the engine on behalf of the
// simulated system (a client's request, start-up, shutdown, the pass-through lock wrapper).
var engineEntryPoints = []string{".(*Sim).execOp", ".(*Sim).bootLedger", ".(*Sim).spawnShutdown", ".(*lockerWrap).Lock", ".(*lockerSim).doRequest", ".(*lockerSim).probe"}

// engineContext: walking up from a statement-level point, is the nearest simulator frame one of
// those entry points? (If the engine was entered from any other simulator code -- store, oracles,
// publisher, bookkeeping -- or from no simulator code at all, the answer decides accordingly:
// no simulator frame means a goroutine the engine started itself, which is engine context.)
func engineContext() bool {
	var pcs [48]uintptr
	n := runtime.Callers(3, pcs[:])
	frames := runtime.CallersFrames(pcs[:n])
	for {
		f, more := frames.Next()
		if strings.Contains(f.Function, "/verifsim.") {
			for _, e := range engineEntryPoints {
				if strings.Contains(f.Function, e) {
					return true
				}
			}
			return false
		}
		if !more {
			return true
		}
	}
}
