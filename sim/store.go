package verifsim

import (
	"bytes"
	"context"
	"encoding/json"
	"errors"
	"fmt"
	"math/big"
	"sort"
	"time"

	ledger "github.com/formancehq/ledger/internal"
	"github.com/formancehq/ledger/internal/storage/ledgerstore"
	"github.com/formancehq/ledger/internal/storage/sqlutils"
	"github.com/formancehq/stack/libs/go-libs/bun/bunpaginate"
	"github.com/formancehq/stack/libs/go-libs/metadata"
)

// ---------------------------------------------------------------------------
// The simulated disk + PostgreSQL (DESIGN.md sections 1 and 13). The durable
// Medium survives generations; a storeView is what one generation's Commander
// talks to.
// ---------------------------------------------------------------------------

var (
	errInjected   = errors.New("sim: injected store failure")
	errDeadGen    = errors.New("sim: process is dead")
	errConstraint = errors.New("sim: unique constraint violated")
)

// Row is what the logs table keeps of an entry: bytes, not objects.
type Row struct {
	ID   *big.Int
	Type string
	Hash []byte
	Date time.Time
	Data []byte // normalised JSON, as jsonb would keep it
	IK   string

	// Bookkeeping that is not part of the durable medium.
	Orig  *ledger.ChainedLog // the object handed to InsertLogs; used by the C13 audit only
	Step  int                // scheduling step of the commit
	Gen   int
	Batch int
}

type TxRow struct {
	ID        *big.Int
	Reference string
	Postings  ledger.Postings
	Timestamp ledger.Time
	Metadata  map[string]string
	Reverted  bool
	Seq       int
	LogIdx    int
}

type Medium struct {
	Name     string
	Rows     []*Row
	Txs      []*TxRow
	txByID   map[string]*TxRow
	bal      map[string]*big.Int
	acctMeta map[string]map[string]string
	batches  int
	// per-method call counters for fault injection
	calls map[string]int
}

func newMedium(name string) *Medium {
	return &Medium{
		Name:     name,
		txByID:   map[string]*TxRow{},
		bal:      map[string]*big.Int{},
		acctMeta: map[string]map[string]string{},
		calls:    map[string]int{},
	}
}

func balKey(acct, asset string) string { return acct + "\x00" + asset }

func (m *Medium) balance(acct, asset string) *big.Int {
	if b, ok := m.bal[balKey(acct, asset)]; ok {
		return new(big.Int).Set(b)
	}
	return new(big.Int)
}

// normaliseJSON re-encodes JSON the way a jsonb column gives it back: keys
// sorted and de-duplicated, insignificant whitespace gone, numbers with
// arbitrary precision.
func normaliseJSON(in []byte) ([]byte, any, error) {
	dec := json.NewDecoder(bytes.NewReader(in))
	dec.UseNumber()
	var v any
	if err := dec.Decode(&v); err != nil {
		return nil, nil, err
	}
	out, err := json.Marshal(v)
	if err != nil {
		return nil, nil, err
	}
	return out, v, nil
}

func (r *Row) toLogsRow(ledgerName string) *ledgerstore.Logs {
	return &ledgerstore.Logs{
		Ledger:         ledgerName,
		ID:             (*bunpaginate.BigInt)(new(big.Int).Set(r.ID)),
		Type:           r.Type,
		Hash:           append([]byte(nil), r.Hash...),
		Date:           ledger.Time{Time: r.Date},
		Data:           append([]byte(nil), r.Data...),
		IdempotencyKey: r.IK,
	}
}

// decodeRow reads a stored row back through the repository's own decoder.
func decodeRow(ledgerName string, r *Row) (cl *ledger.ChainedLog, err error) {
	defer func() {
		if e := recover(); e != nil {
			err = fmt.Errorf("panic while decoding stored row id=%s type=%s: %v", r.ID, r.Type, e)
		}
	}()
	return r.toLogsRow(ledgerName).ToCore(), nil
}

func asString(v any) string {
	switch x := v.(type) {
	case string:
		return x
	case json.Number:
		return x.String()
	case nil:
		return ""
	default:
		return fmt.Sprint(x)
	}
}

func asMap(v any) map[string]any {
	m, _ := v.(map[string]any)
	return m
}

func metaFromAny(v any) map[string]string {
	out := map[string]string{}
	for k, vv := range asMap(v) {
		out[k] = asString(vv)
	}
	return out
}

// project applies one committed row to the read projections, mirroring the
// handle_log trigger.
func (m *Medium) project(r *Row, generic any, logIdx int) error {
	data := asMap(generic)
	insertTx := func(txAny any) error {
		txm := asMap(txAny)
		if txm == nil {
			return fmt.Errorf("row %s: no transaction object", r.ID)
		}
		id, ok := new(big.Int).SetString(asString(txm["id"]), 10)
		if !ok {
			return fmt.Errorf("row %s: bad transaction id %v", r.ID, txm["id"])
		}
		var tx ledger.Transaction
		raw, _ := json.Marshal(txAny)
		if err := json.Unmarshal(raw, &tx); err != nil {
			return fmt.Errorf("row %s: transaction does not parse: %w", r.ID, err)
		}
		row := &TxRow{
			ID:        id,
			Reference: tx.Reference,
			Postings:  tx.Postings,
			Timestamp: tx.Timestamp,
			Metadata:  metaFromAny(txm["metadata"]),
			Seq:       len(m.Txs),
			LogIdx:    logIdx,
		}
		m.Txs = append(m.Txs, row)
		m.txByID[id.String()] = row
		for _, p := range tx.Postings {
			sk, dk := balKey(p.Source, p.Asset), balKey(p.Destination, p.Asset)
			if _, ok := m.bal[sk]; !ok {
				m.bal[sk] = new(big.Int)
			}
			m.bal[sk].Sub(m.bal[sk], p.Amount)
			if _, ok := m.bal[dk]; !ok {
				m.bal[dk] = new(big.Int)
			}
			m.bal[dk].Add(m.bal[dk], p.Amount)
		}
		return nil
	}
	mergeAcct := func(addr string, md map[string]string) {
		cur, ok := m.acctMeta[addr]
		if !ok {
			cur = map[string]string{}
			m.acctMeta[addr] = cur
		}
		for k, v := range md {
			cur[k] = v
		}
	}
	switch r.Type {
	case "NEW_TRANSACTION":
		if err := insertTx(data["transaction"]); err != nil {
			return err
		}
		am := asMap(data["accountMetadata"])
		keys := make([]string, 0, len(am))
		for k := range am {
			keys = append(keys, k)
		}
		sort.Strings(keys)
		for _, k := range keys {
			mergeAcct(k, metaFromAny(am[k]))
		}
	case "REVERTED_TRANSACTION":
		if err := insertTx(data["transaction"]); err != nil {
			return err
		}
		if t, ok := m.txByID[asString(data["revertedTransactionID"])]; ok {
			t.Reverted = true
		}
	case "SET_METADATA":
		if asString(data["targetType"]) == "TRANSACTION" {
			if t, ok := m.txByID[asString(data["targetId"])]; ok {
				for k, v := range metaFromAny(data["metadata"]) {
					t.Metadata[k] = v
				}
			}
		} else {
			mergeAcct(asString(data["targetId"]), metaFromAny(data["metadata"]))
		}
	case "DELETE_METADATA":
		if asString(data["targetType"]) == "TRANSACTION" {
			if t, ok := m.txByID[asString(data["targetId"])]; ok {
				delete(t.Metadata, asString(data["key"]))
			}
		} else {
			if cur, ok := m.acctMeta[asString(data["targetId"])]; ok {
				delete(cur, asString(data["key"]))
			}
		}
	default:
		return fmt.Errorf("row %s: type %q is not a member of the log_type enum", r.ID, r.Type)
	}
	return nil
}

func (t *TxRow) toCore() *ledger.Transaction {
	md := metadata.Metadata{}
	for k, v := range t.Metadata {
		md[k] = v
	}
	ps := make(ledger.Postings, len(t.Postings))
	for i, p := range t.Postings {
		ps[i] = ledger.Posting{Source: p.Source, Destination: p.Destination, Asset: p.Asset, Amount: new(big.Int).Set(p.Amount)}
	}
	return &ledger.Transaction{
		TransactionData: ledger.TransactionData{
			Postings:  ps,
			Metadata:  md,
			Timestamp: t.Timestamp,
			Reference: t.Reference,
		},
		ID:       new(big.Int).Set(t.ID),
		Reverted: t.Reverted,
	}
}

// storeView implements command.Store for one generation of one ledger.
type storeView struct {
	sim *Sim
	li  *ledgerInst
	m   *Medium
	gen *Generation
}

func (v *storeView) dead() bool { return v.gen.dead.Load() }

// readFault reports whether the fault plan makes this call fail.
func (v *storeView) fault(method string) int {
	v.m.calls[method]++
	return v.sim.storeFault(v.m.Name, method, v.m.calls[method])
}

func (v *storeView) enter(ctx context.Context, method string) error {
	v.sim.sched.Yield(ctx, "store."+method)
	if v.dead() {
		return errDeadGen
	}
	if v.fault(method) != 0 {
		v.sim.count("fault.read." + method)
		v.sim.sched.Logf("  store %s %s -> injected error", v.m.Name, method)
		return errInjected
	}
	if op := opFrom(ctx); v.sim.opStoreFault(op, method) != 0 {
		v.sim.count("fault.read." + method)
		v.sim.count("fault.read.addressed-to-request")
		v.sim.sched.Logf("  store %s %s (request %s) -> injected error", v.m.Name, method, op.Name)
		return errInjected
	}
	return nil
}

func (v *storeView) GetBalance(ctx context.Context, address, asset string) (*big.Int, error) {
	op := opFrom(ctx)
	if op != nil && op.balSnap != nil {
		// Later balance reads of the same request answer from the request's snapshot
		// (DESIGN.md section 3: Go map iteration order decides the order of these calls).
		if v.dead() {
			return nil, errDeadGen
		}
		op.balReads[balKey(address, asset)] = true
		if b, ok := op.balSnap[balKey(address, asset)]; ok {
			return new(big.Int).Set(b), nil
		}
		return new(big.Int), nil
	}
	if err := v.enter(ctx, "GetBalance"); err != nil {
		return nil, err
	}
	if op != nil {
		op.balSnap = make(map[string]*big.Int, len(v.m.bal))
		for k, b := range v.m.bal {
			op.balSnap[k] = new(big.Int).Set(b)
		}
		op.balReads = map[string]bool{balKey(address, asset): true}
		op.balStep = v.sim.sched.step
		op.balRows = len(v.m.Rows)
		v.sim.sched.Logf("  store %s balance-snapshot rows=%d", v.m.Name, len(v.m.Rows))
	}
	return v.m.balance(address, asset), nil
}

func (v *storeView) GetAccount(ctx context.Context, address string) (*ledger.Account, error) {
	if err := v.enter(ctx, "GetAccount"); err != nil {
		return nil, err
	}
	md := metadata.Metadata{}
	for k, val := range v.m.acctMeta[address] {
		md[k] = val
	}
	if op := opFrom(ctx); op != nil {
		if op.acctReads == nil {
			op.acctReads = map[string]map[string]string{}
		}
		cp := map[string]string{}
		for k, val := range md {
			cp[k] = val
		}
		op.acctReads[address] = cp
	}
	v.sim.sched.Logf("  store %s GetAccount %s n=%d", v.m.Name, address, len(md))
	return &ledger.Account{Address: address, Metadata: md}, nil
}

func (v *storeView) GetLastLog(ctx context.Context) (*ledger.ChainedLog, error) {
	if err := v.enter(ctx, "GetLastLog"); err != nil {
		return nil, err
	}
	if len(v.m.Rows) == 0 {
		return nil, sqlutils.ErrNotFound
	}
	// "order by id desc limit 1"
	best := v.m.Rows[0]
	for _, r := range v.m.Rows[1:] {
		if r.ID.Cmp(best.ID) > 0 {
			best = r
		}
	}
	return v.toCore(best), nil
}

// toCore mirrors what the real store does with a fetched row; a decoder panic
// propagates to the caller exactly as it would in production.
func (v *storeView) toCore(r *Row) *ledger.ChainedLog {
	return r.toLogsRow(v.m.Name).ToCore()
}

func (v *storeView) GetLastTransaction(ctx context.Context) (*ledger.ExpandedTransaction, error) {
	if err := v.enter(ctx, "GetLastTransaction"); err != nil {
		return nil, err
	}
	if len(v.m.Txs) == 0 {
		return nil, sqlutils.ErrNotFound
	}
	t := v.m.Txs[len(v.m.Txs)-1] // order by seq desc
	return &ledger.ExpandedTransaction{Transaction: *t.toCore()}, nil
}

func (v *storeView) ReadLogWithIdempotencyKey(ctx context.Context, key string) (*ledger.ChainedLog, error) {
	if err := v.enter(ctx, "ReadLogWithIdempotencyKey"); err != nil {
		return nil, err
	}
	var best *Row
	for _, r := range v.m.Rows {
		if r.IK == key && (best == nil || r.ID.Cmp(best.ID) > 0) {
			best = r
		}
	}
	if best == nil {
		return nil, sqlutils.ErrNotFound
	}
	v.sim.count("probe.ik-hit-from-store")
	v.sim.sched.Logf("  store %s IK hit id=%s", v.m.Name, best.ID)
	return v.toCore(best), nil
}

func (v *storeView) GetTransactionByReference(ctx context.Context, ref string) (*ledger.ExpandedTransaction, error) {
	if err := v.enter(ctx, "GetTransactionByReference"); err != nil {
		return nil, err
	}
	for _, t := range v.m.Txs {
		if t.Reference == ref {
			return &ledger.ExpandedTransaction{Transaction: *t.toCore()}, nil
		}
	}
	return nil, sqlutils.ErrNotFound
}

func (v *storeView) GetTransaction(ctx context.Context, txID *big.Int) (*ledger.Transaction, error) {
	if err := v.enter(ctx, "GetTransaction"); err != nil {
		return nil, err
	}
	if txID == nil {
		return nil, sqlutils.ErrNotFound
	}
	t, ok := v.m.txByID[txID.String()]
	if !ok {
		return nil, sqlutils.ErrNotFound
	}
	return t.toCore(), nil
}

// InsertLogs is one SQL transaction: the whole batch or nothing.
func (v *storeView) InsertLogs(ctx context.Context, logs ...*ledger.ChainedLog) error {
	s := v.sim
	if v.dead() {
		return nil
	}
	// Every write is a task of its own: with more than one batch worker several writes can be
	// in flight and the scheduler, not the runtime, decides which one reaches the store first.
	v.li.writeCalls++
	wt := s.sched.adhocTask(v.gen, fmt.Sprintf("g%d.%s.write%d", v.gen.Idx, v.m.Name, v.li.writeCalls))
	s.sched.yieldTask(wt, "store.InsertLogs", true)
	if v.dead() {
		// a dead process persists nothing; reporting success lets the runner loop drain (DESIGN 2.2)
		return nil
	}
	s.checkHandOff(v.li, logs)
	mode := v.fault("InsertLogs")
	if mode == 1 {
		s.count("fault.write.fail")
		s.sched.Logf("  store %s InsertLogs n=%d -> injected failure, nothing committed", v.m.Name, len(logs))
		v.li.writeFailed = true
		return errInjected
	}
	if len(logs) > 1 {
		s.count("probe.batch-multi")
	}
	// unique(ledger,id) on logs and on transactions
	seenIDs := map[string]bool{}
	for _, r := range v.m.Rows {
		seenIDs[r.ID.String()] = true
	}
	seenTx := map[string]bool{}
	for k := range v.m.txByID {
		seenTx[k] = true
	}
	rows := make([]*Row, 0, len(logs))
	generics := make([]any, 0, len(logs))
	for _, l := range logs {
		if l == nil || l.ID == nil {
			s.violate("C05", "nil-log-in-batch", "InsertLogs received a nil log or a log without id")
			return errConstraint
		}
		raw, err := json.Marshal(l.Data)
		if err != nil {
			return fmt.Errorf("marshaling log data: %w", err)
		}
		norm, generic, err := normaliseJSON(raw)
		if err != nil {
			return fmt.Errorf("invalid json for jsonb column: %w", err)
		}
		if seenIDs[l.ID.String()] {
			s.sched.Logf("  store %s InsertLogs -> duplicate log id %s refused", v.m.Name, l.ID)
			s.noteConstraint(v.m.Name, "log-id", l.ID.String())
			v.li.writeFailed = true
			return errConstraint
		}
		seenIDs[l.ID.String()] = true
		if l.Type == ledger.NewTransactionLogType || l.Type == ledger.RevertedTransactionLogType {
			txid := asString(asMap(asMap(generic)["transaction"])["id"])
			if seenTx[txid] {
				s.sched.Logf("  store %s InsertLogs -> duplicate transaction id %s refused", v.m.Name, txid)
				s.noteConstraint(v.m.Name, "tx-id", txid)
				v.li.writeFailed = true
				return errConstraint
			}
			seenTx[txid] = true
		}
		rows = append(rows, &Row{
			ID:    new(big.Int).Set(l.ID),
			Type:  l.Type.String(),
			Hash:  append([]byte(nil), l.Hash...),
			Date:  l.Date.Time.UTC().Round(time.Microsecond),
			Data:  norm,
			IK:    l.IdempotencyKey,
			Orig:  l,
			Step:  s.sched.step,
			Gen:   v.gen.Idx,
			Batch: v.m.batches,
		})
		generics = append(generics, generic)
	}
	// commit point
	for i, r := range rows {
		v.m.Rows = append(v.m.Rows, r)
		if err := v.m.project(r, generics[i], len(v.m.Rows)-1); err != nil {
			// a trigger failure would abort the SQL transaction; treat as harness-visible anomaly
			s.violate("C13", "unprojectable-row", err.Error())
		}
	}
	v.m.batches++
	s.sched.Logf("  store %s commit batch=%d n=%d first=%s", v.m.Name, v.m.batches-1, len(rows), rows[0].ID)
	s.onCommit(v.li, rows)
	if mode == 2 {
		s.count("fault.write.ambiguous")
		s.sched.Logf("  store %s InsertLogs -> committed, then injected error", v.m.Name)
		v.li.writeFailed = true
		s.sched.yieldTask(wt, "store.InsertLogs.post", true)
		return errInjected
	}
	s.sched.yieldTask(wt, "store.InsertLogs.post", true)
	return nil
}
