package verifsim

import (
	"bytes"
	"fmt"
	"testing"

	"pgregory.net/rapid"
)

// ---------------------------------------------------------------------------
// C14: differential simulation (DESIGN.md section 6, C14). A history with
// previews inserted (H+) and the same history without them (H) run under
// identical single-client schedules; everything observable must agree.
// ---------------------------------------------------------------------------

type DiffIn struct {
	Plus *Input `json:"history_with_previews"`
}

// without returns H: the input with every preview removed.
func (d *DiffIn) without() *Input {
	in := *d.Plus
	in.Gens = nil
	for _, g := range d.Plus.Gens {
		var ng GenPlan
		for _, ops := range g.Clients {
			var keep []Op
			for _, o := range ops {
				if !o.Preview {
					keep = append(keep, o)
				}
			}
			ng.Clients = append(ng.Clients, keep)
		}
		in.Gens = append(in.Gens, ng)
	}
	return &in
}

func stripReq(m map[string]string) map[string]string {
	out := map[string]string{}
	for k, v := range m {
		if k != "req" {
			out[k] = v
		}
	}
	return out
}

// RunDiff runs both histories and compares them.
func RunDiff(t *testing.T, d *DiffIn, keepLog bool) *Result {
	plus := Run(t, d.Plus, "C14", keepLog)
	res := &Result{Digest: plus.Digest, Lines: plus.Lines, Steps: plus.Steps, Counters: plus.Counters, HarnessErr: plus.HarnessErr, SimTime: plus.SimTime, StateHash: plus.StateHash}
	res.Violations = append(res.Violations, plus.Violations...)
	if plus.HarnessErr != "" {
		return res
	}
	base := Run(t, d.without(), "C14", keepLog)
	if base.HarnessErr != "" {
		res.HarnessErr = base.HarnessErr
		return res
	}
	res.Steps += base.Steps
	res.SimTime += base.SimTime
	res.Digest = shortHash(plus.Digest+base.Digest) + plus.Digest[16:]
	if keepLog {
		res.Lines = append(append(append([]string{"=== history with previews ==="}, plus.Lines...), "=== history without previews ==="), base.Lines...)
	}
	add := func(class, detail string, feats ...string) {
		for _, v := range res.Violations {
			if v.Prop == "C14" && v.Class == class {
				return
			}
		}
		res.Violations = append(res.Violations, Violation{Prop: "C14", Class: class, Detail: detail, Features: feats})
	}
	// 1. the durable log
	for li := range plus.Media {
		a, b := plus.Media[li].Rows, base.Media[li].Rows
		n := len(a)
		if len(b) < n {
			n = len(b)
		}
		for i := 0; i < n; i++ {
			switch {
			case a[i].ID.Cmp(b[i].ID) != 0 || a[i].Type != b[i].Type:
				add("preview-changes-log", fmt.Sprintf("%s entry %d: with previews id=%s %s, without id=%s %s", plus.Media[li].Name, i, a[i].ID, a[i].Type, b[i].ID, b[i].Type))
			case !bytes.Equal(a[i].Data, b[i].Data):
				add("preview-changes-log", fmt.Sprintf("%s entry %d (%s): content differs: with previews %s, without %s", plus.Media[li].Name, i, a[i].Type, a[i].Data, b[i].Data), "content")
			case !bytes.Equal(a[i].Hash, b[i].Hash) || a[i].IK != b[i].IK:
				add("preview-changes-log", fmt.Sprintf("%s entry %d (%s): hash or idempotency key differs", plus.Media[li].Name, i, a[i].Type), "hash")
			}
		}
		if len(a) != len(b) {
			add("preview-changes-log", fmt.Sprintf("%s: %d entries with previews, %d without", plus.Media[li].Name, len(a), len(b)), "length")
		}
	}
	// 2. responses of the shared requests
	byTag := map[string]*OpRecord{}
	for _, o := range base.Ops {
		byTag[o.Name] = o
	}
	previews, answered := 0, 0
	for i, o := range plus.Ops {
		if o.Op.Preview {
			previews++
			if o.success() {
				answered++
			}
			// a preview followed by the identical real write answers what the real write answers
			if o.Op.Twin > 0 && i+1 < len(plus.Ops) {
				r := plus.Ops[i+1]
				// (not when a store error was injected under the preview: the real write met none)
				if r.Gen == o.Gen && r.Returned && o.Returned && !r.Op.Preview && !o.storeFaulted {
					if o.ErrClass != r.ErrClass {
						add("preview-answer-differs-from-real-write", fmt.Sprintf("preview %s ended with %q, the identical real write %s right after it with %q", o.Name, o.ErrClass, r.Name, r.ErrClass), "kind="+o.Op.Kind, "outcome")
					} else if o.Tx != nil && r.Tx != nil {
						pt, rt := *o.Tx, *r.Tx
						pt.Metadata, rt.Metadata = stripReq(pt.Metadata), stripReq(rt.Metadata)
						if dd := txDiff(&pt, &rt); dd != "" {
							add("preview-answer-differs-from-real-write", fmt.Sprintf("preview %s and the identical real write %s right after it return different transactions: %s", o.Name, r.Name, dd), "kind="+o.Op.Kind, "transaction")
						}
					}
				}
			}
			continue
		}
		b := byTag[o.Name]
		if b == nil {
			if o.Invoked {
				add("preview-changes-response", fmt.Sprintf("request %s ran in the history with previews but not in the history without", o.Name))
			}
			continue
		}
		if o.Returned != b.Returned || o.ErrClass != b.ErrClass {
			add("preview-changes-response", fmt.Sprintf("request %s: with previews %s, without %s", o.Name, o.outcomeOrUnanswered(), b.outcomeOrUnanswered()), "kind="+o.Op.Kind)
			continue
		}
		// (only answered requests: what a zombie of a crashed process leaves in its record is not a response)
		if (o.Tx != nil || b.Tx != nil) && o.Returned && b.Returned {
			if dd := txDiff(o.Tx, b.Tx); dd != "" {
				add("preview-changes-response", fmt.Sprintf("request %s returns a different transaction once previews are inserted: %s", o.Name, dd), "kind="+o.Op.Kind)
			}
		}
	}
	defer plus.Release()
	defer base.Release()
	res.Counters["probe.preview-issued"] = previews
	res.Counters["probe.preview-answered"] = answered
	// 3. the event stream
	if len(plus.Events) != len(base.Events) {
		add("preview-changes-events", fmt.Sprintf("%d events with previews, %d without", len(plus.Events), len(base.Events)))
	} else {
		for i := range plus.Events {
			a, b := plus.Events[i], base.Events[i]
			if a.Topic != b.Topic || !bytes.Equal(a.Payload, b.Payload) {
				add("preview-changes-events", fmt.Sprintf("event %d differs: with previews %s %s, without %s %s", i, a.Topic, a.Payload, b.Topic, b.Payload))
			}
		}
	}
	return res
}

func (o *OpRecord) outcomeOrUnanswered() string {
	if !o.Returned {
		return "unanswered"
	}
	return o.outcome()
}

// GenDiffIn draws a single-client history with restarts and write faults, and
// previews of every kind inserted at random positions.
func GenDiffIn(t *rapid.T) *DiffIn {
	p := profiles["preview"]
	p.DryPct = 0
	p.CancelPct = 0
	p.TSPct = 100
	in := &Input{Profile: "preview-diff"}
	cfg := &in.Cfg
	cfg.Ledgers = 1
	cfg.Accounts = rapid.IntRange(2, 3).Draw(t, "accounts")
	cfg.CacheSize = rapid.SampledFrom([]int{1, largeCache}).Draw(t, "cache")
	cfg.BatchSize = rapid.SampledFrom([]int{1, 4096}).Draw(t, "batch")
	for a := 0; a < cfg.Accounts; a++ {
		if f := rapid.IntRange(0, p.FundMax).Draw(t, "fund"); f > 0 {
			in.Prelude = append(in.Prelude, Op{Kind: "script", Tpl: tplWorld, Dst: a, Amount: fmt.Sprint(f), TS: tsSamples[0], Tag: fmt.Sprintf("pre%d", a)})
		}
	}
	in.Prelude = append(in.Prelude, Op{Kind: "setmeta", Target: cfg.Accounts, Key: "src", Value: acctName(0), Tag: "precfg"})
	if pct(t, 12, "shortPrelude") {
		// previews right behind the very first entries of a ledger
		if k := rapid.IntRange(0, 1).Draw(t, "preludeLen"); k < len(in.Prelude) {
			in.Prelude = in.Prelude[:k]
		}
	}
	ngens := rapid.IntRange(1, 3).Draw(t, "gens")
	np := 0
	for g := 0; g < ngens; g++ {
		n := rapid.IntRange(1, 5).Draw(t, "nops")
		var ops []Op
		for i := 0; i < n; i++ {
			op := genOp(t, &p, cfg)
			op.DryRun = false
			op.CancelAtYield = 0
			op.Tag = fmt.Sprintf("h%d.%d", g, i)
			if op.Kind == "script" || op.Kind == "postings" {
				op.TS = rapid.SampledFrom(tsSamples).Draw(t, "ts")
			}
			// previews before this request
			switch rapid.IntRange(0, 3).Draw(t, "previewHere") {
			case 1: // an unrelated preview
				pv := genOp(t, &p, cfg)
				pv.DryRun, pv.Preview, pv.CancelAtYield = true, true, 0
				pv.Tag = fmt.Sprintf("p%d", np)
				np++
				if pv.Kind == "script" || pv.Kind == "postings" {
					pv.TS = rapid.SampledFrom(tsSamples).Draw(t, "pts")
				}
				ops = append(ops, pv)
			case 2: // the preview of this very request
				pv := op
				pv.DryRun, pv.Preview, pv.Twin = true, true, 1
				pv.Tag = fmt.Sprintf("p%d", np)
				np++
				ops = append(ops, pv)
			}
			ops = append(ops, op)
		}
		in.Gens = append(in.Gens, GenPlan{Clients: [][]Op{ops}})
	}
	// crashes while a given request is in flight, at a named window
	if ngens > 1 && pct(t, 60, "hasCrash") {
		g := rapid.IntRange(0, ngens-2).Draw(t, "crashGen")
		var tags []string
		for _, o := range in.Gens[g].Clients[0] {
			if !o.Preview {
				tags = append(tags, o.Tag)
			}
		}
		in.Faults = append(in.Faults, Fault{Kind: "crash", OpTag: rapid.SampledFrom(tags).Draw(t, "crashOp"),
			Point: rapid.SampledFrom([]string{"store.InsertLogs", "store.InsertLogs.post", "append.chained", "run.done", "exec.txid", "", "client.return"}).Draw(t, "crashPoint")})
	}
	if pct(t, 25, "hasWriteFail") {
		in.SFaults = append(in.SFaults, StoreFail{Method: "InsertLogs", Nth: rapid.IntRange(1, 8).Draw(t, "wfNth"), Mode: rapid.IntRange(1, 2).Draw(t, "wfMode")})
	}
	// a read of the store fails under a preview (the fault is addressed to the preview, so the
	// history without previews meets no fault): whatever the failed preview leaves behind must
	// not change what the later requests do
	if np > 0 && pct(t, 35, "hasPreviewReadFail") {
		n := rapid.IntRange(1, 2).Draw(t, "nPreviewReadFail")
		for i := 0; i < n; i++ {
			in.SFaults = append(in.SFaults, StoreFail{OpTag: fmt.Sprintf("p%d", rapid.IntRange(0, np-1).Draw(t, "prfOp")),
				Method: rapid.SampledFrom(readMethods[:5]).Draw(t, "prfMethod"), Nth: rapid.IntRange(1, 2).Draw(t, "prfNth"), Mode: 1})
		}
	}
	return &DiffIn{Plus: in}
}
