package verifsim

import (
	"context"
	"crypto/sha256"
	"encoding/hex"
	"fmt"
	"regexp"
	"sort"
	"strings"
	"sync"
	"sync/atomic"
	"testing/synctest"
	"time"

	"github.com/formancehq/stack/libs/go-libs/logging"
)

// ---------------------------------------------------------------------------
// Tasks, yields and the one-runnable-at-a-time scheduler (DESIGN.md section 2).
// ---------------------------------------------------------------------------

type ctxKey int

const (
	taskCtxKey ctxKey = iota
	opCtxKey
)

// Task is a goroutine known to the scheduler. Its identity travels in the
// context.Context every engine call receives.
type Task struct {
	adhoc    bool // made on the fly for one store write / publication (see snapshotParked)
	ID       int
	Name     string
	Gen      *Generation
	wake     chan struct{}
	point    string
	finished bool
	counted  bool // the current park has been counted by the scheduler
	pointNth int  // how many times a task had parked at this point when this one did
	held     int  // mutexes held by the task's goroutine (fine-grained mode)
	sched    *Sched
	alias    *Task // ad-hoc identity of a goroutine that acts on behalf of this task (publisher seam)
	// client tasks only
	cur *OpRecord
}

func taskFrom(ctx context.Context) *Task {
	t, _ := ctx.Value(taskCtxKey).(*Task)
	return t
}

func opFrom(ctx context.Context) *OpRecord {
	o, _ := ctx.Value(opCtxKey).(*OpRecord)
	return o
}

// Generation is one process lifetime.
type Generation struct {
	Idx                    int
	dead                   atomic.Bool
	deadStep               int
	cancel                 context.CancelFunc
	ctx                    context.Context
	crashed                bool // died through an injected fault (as opposed to the orderly end of the run)
	ledgers                []*ledgerInst
	clients                []*Task
	boot                   []*Task
	bootDone               bool
	bootFail               bool
	shutdown, shutdownDone bool
	orderly                bool // the shutdown is the orderly end of the generation, not a fault
}

type noopLogger struct{}

func (noopLogger) Debugf(string, ...any)                      {}
func (noopLogger) Infof(string, ...any)                       {}
func (noopLogger) Errorf(string, ...any)                      {}
func (noopLogger) Debug(...any)                               {}
func (noopLogger) Info(...any)                                {}
func (noopLogger) Error(...any)                               {}
func (l noopLogger) WithFields(map[string]any) logging.Logger { return l }
func (l noopLogger) WithField(string, any) logging.Logger     { return l }
func (l noopLogger) WithContext(context.Context) logging.Logger {
	return l
}

// Sched owns every scheduling decision of one simulated run.
type Sched struct {
	mu      sync.Mutex
	parked  []*Task
	tasks   []*Task
	nextID  int
	step    int
	last    *Task
	choices []int
	// decisions beyond the end of choices (Input.TailSeed / TailPct)
	tailSeed uint64
	tailPct  int
	// ... or priority scheduling (Input.PCTSeed / PCTDepth / PCTSpan), see pctPick
	pctSeed    uint64
	pctDepth   int
	pctSpan    int
	pctLow     map[string]int
	cidx       int
	made       []int // every decision taken, as the choice code that reproduces it
	waiterTurn int
	siteOff    map[string]bool

	lines     []string // event log (pure function of the decisions)
	keepLog   bool
	keepDebug bool
	digest    [32]byte

	preempts  int
	maxSteps  int
	noChoice  bool // prelude: decisions are not taken from the choice list
	taskPanic string
}

func newSched(choices []int, siteOff map[string]bool, maxSteps int) *Sched {
	return &Sched{choices: choices, siteOff: siteOff, maxSteps: maxSteps}
}

// Logf appends a line to the event log. It never draws randomness nor reads a
// real clock.
func (s *Sched) Logf(format string, args ...any) {
	line := fmt.Sprintf(format, args...)
	s.mu.Lock()
	s.lines = append(s.lines, line)
	s.mu.Unlock()
}

// fineLine is the line number inside the name of a statement-level point ("fine:file.go:123:Func").
var fineLine = regexp.MustCompile(`@fine:([^:]+):\d+:`)

// Digest is the hash of the event log. The line numbers of statement-level points are left out:
// the code under test may walk a Go map with such points inside the loop, and then the order in
// which they are reached is the runtime's (harmless as long as the loop's iterations commute --
// and the code's own affair if they do not); the number of parks and everything observable still
// has to agree.
func (s *Sched) Digest() string {
	h := sha256.New()
	for _, l := range s.lines {
		if strings.Contains(l, "@fine:") {
			l = fineLine.ReplaceAllString(l, "@fine:$1:")
		}
		h.Write([]byte(l))
		h.Write([]byte{'\n'})
	}
	return hex.EncodeToString(h.Sum(nil))
}

// Yield parks the calling task until the scheduler releases it. Tasks of a
// dead generation (zombies) never park.
func (s *Sched) Yield(ctx context.Context, point string) {
	t := taskFrom(ctx)
	if t == nil {
		return
	}
	s.yieldTask(t, point, false)
}

func (s *Sched) yieldTask(t *Task, point string, force bool) {
	if t.Gen != nil && t.Gen.dead.Load() {
		return
	}
	if !force && s.siteOff[point] {
		return
	}
	s.mu.Lock()
	t.point = point
	s.parked = append(s.parked, t)
	s.mu.Unlock()
	<-t.wake
}

// spawn starts fn as a new task. The goroutine parks at "start" first so that
// nothing runs before the scheduler says so.
func (s *Sched) spawn(base context.Context, gen *Generation, name string, fn func(ctx context.Context, t *Task)) *Task {
	s.mu.Lock()
	t := &Task{ID: s.nextID, Name: name, Gen: gen, wake: make(chan struct{}), sched: s}
	s.nextID++
	s.tasks = append(s.tasks, t)
	s.mu.Unlock()
	ctx := context.WithValue(base, taskCtxKey, t)
	go func() {
		registerGoroutine(t)
		defer func() {
			// a panic that escapes a task must not take the whole worker process down
			if e := recover(); e != nil && (t.Gen == nil || !t.Gen.dead.Load()) {
				s.mu.Lock()
				if s.taskPanic == "" {
					s.taskPanic = fmt.Sprintf("task %s panicked: %v", t.Name, e)
				}
				s.mu.Unlock()
			}
			unregisterGoroutine()
			s.mu.Lock()
			t.finished = true
			s.mu.Unlock()
		}()
		s.yieldTask(t, "start", true)
		fn(ctx, t)
	}()
	return t
}

// adhocTask registers a task identity for a goroutine the simulator did not start (a batch
// worker inside a store write).
func (s *Sched) adhocTask(gen *Generation, name string) *Task {
	s.mu.Lock()
	defer s.mu.Unlock()
	t := &Task{ID: s.nextID, Name: name, Gen: gen, wake: make(chan struct{}), sched: s, adhoc: true}
	s.nextID++
	s.tasks = append(s.tasks, t)
	return t
}

// takeParked returns the parked tasks sorted by id and empties the list.
func (s *Sched) snapshotParked() []*Task {
	s.mu.Lock()
	ps := append([]*Task(nil), s.parked...)
	s.mu.Unlock()
	// Tasks the scheduler spawned itself come first, in spawn order. Tasks made on the fly for a
	// store write or a publication come after them, ordered by their (deterministic) names and not
	// by creation: two of them may be created by goroutines running at the same time -- e.g. two
	// ledgers' timers firing during one clock advance -- and then their ids depend on the race.
	sort.Slice(ps, func(i, j int) bool {
		a, b := ps[i], ps[j]
		if a.adhoc != b.adhoc {
			return !a.adhoc
		}
		if !a.adhoc {
			return a.ID < b.ID
		}
		if len(a.Name) != len(b.Name) {
			return len(a.Name) < len(b.Name)
		}
		if a.Name != b.Name {
			return a.Name < b.Name
		}
		return a.ID < b.ID
	})
	return ps
}

func (s *Sched) removeParked(t *Task) {
	s.mu.Lock()
	for i, p := range s.parked {
		if p == t {
			s.parked = append(s.parked[:i], s.parked[i+1:]...)
			break
		}
	}
	s.mu.Unlock()
}

// release wakes one parked task.
func (s *Sched) release(t *Task) {
	s.removeParked(t)
	t.wake <- struct{}{}
}

// pick decodes the next scheduling decision: 0 keeps running the task that ran
// in the previous step if it is parked again, j>0 switches to the j-th other
// parked task in id order. Past the end of the choice list every decision is 0.
func (s *Sched) pick(all []*Task) *Task {
	// A task parked at a "*.lockwait" point is waiting for a mutex whose holder
	// is itself parked inside the critical section: it is eligible only when
	// nothing else is (it then re-tries the lock).
	ps := make([]*Task, 0, len(all))
	for _, p := range all {
		if !strings.HasSuffix(p.point, ".lockwait") {
			ps = append(ps, p)
		}
	}
	onlyWaiters := false
	if len(ps) == 0 {
		ps = all
		onlyWaiters = true
	}
	var lastIdx = -1
	for i, p := range ps {
		if p == s.last || (p.alias != nil && p.alias == s.last) {
			lastIdx = i
		}
	}
	c := 0
	var chosen *Task
	if !s.noChoice {
		if s.cidx < len(s.choices) {
			c = s.choices[s.cidx]
		} else if s.pctDepth > 0 {
			chosen = s.pctPick(ps)
		} else if s.tailPct > 0 {
			c = tailChoice(s.tailSeed, s.tailPct, s.cidx)
		}
		s.cidx++
	}
	if onlyWaiters && len(ps) > 1 {
		// Only tasks waiting for a mutex are left: they may wait for different mutexes, one of
		// which has been released meanwhile, so each gets its turn to re-try (whatever the
		// decision says; the run stays a pure function of its input).
		chosen = ps[s.waiterTurn%len(ps)]
		s.waiterTurn++
	}
	if chosen == nil {
		switch {
		case lastIdx >= 0 && (c == 0 || len(ps) == 1):
			chosen = ps[lastIdx]
		case lastIdx >= 0:
			others := make([]*Task, 0, len(ps)-1)
			for i, p := range ps {
				if i != lastIdx {
					others = append(others, p)
				}
			}
			chosen = others[(c-1)%len(others)]
		default:
			chosen = ps[c%len(ps)]
		}
	}
	if !s.noChoice {
		// the code that makes an explicit choice list take the same decision (for the shrinker)
		code, k := 0, 0
		for i, p := range ps {
			if i == lastIdx {
				continue
			}
			if p == chosen {
				code = k
				if lastIdx >= 0 {
					code = k + 1
				}
			}
			k++
		}
		s.made = append(s.made, code)
		if lastIdx >= 0 && chosen != ps[lastIdx] {
			s.preempts++
		}
	}
	return chosen
}

// pctPick is priority scheduling in the manner of PCT (Burckhardt et al., ASPLOS 2010): every
// task has a fixed random priority (a pure function of the seed and the task's name), the
// parked task with the highest priority runs, and at depth-1 decision indices drawn in
// [0, span) the task about to run is demoted below every initial priority. Long stretches of
// one task with a few well-placed switches: the shape of most ordering bugs.
func (s *Sched) pctPick(ps []*Task) *Task {
	prio := func(t *Task) int {
		name := t.Name
		if t.alias != nil {
			name = t.alias.Name
		}
		if v, ok := s.pctLow[name]; ok {
			return v
		}
		h := splitmix64(s.pctSeed)
		for _, b := range []byte(name) {
			h = splitmix64(h ^ uint64(b))
		}
		return s.pctDepth + 1 + int(h%1000000)
	}
	best := ps[0]
	for _, p := range ps[1:] {
		if prio(p) > prio(best) {
			best = p
		}
	}
	span := s.pctSpan
	if span < 1 {
		span = 1
	}
	for i := 1; i < s.pctDepth; i++ {
		if int(splitmix64(s.pctSeed+uint64(i)*0x632be59bd9b4e019)%uint64(span)) == s.cidx {
			if s.pctLow == nil {
				s.pctLow = map[string]int{}
			}
			name := best.Name
			if best.alias != nil {
				name = best.alias.Name
			}
			s.pctLow[name] = s.pctDepth - i
			// re-evaluate with the demotion in force
			best = ps[0]
			for _, p := range ps[1:] {
				if prio(p) > prio(best) {
					best = p
				}
			}
		}
	}
	return best
}

// quiesce waits until every goroutine in the bubble other than the scheduler
// is durably blocked.
func quiesce() { synctest.Wait() }

// sleep advances the bubble clock.
func simSleep(d time.Duration) { time.Sleep(d) }

func tailChoice(seed uint64, pct int, idx int) int {
	z := splitmix64(seed + uint64(idx)*0x9e3779b97f4a7c15)
	if int(z%100) < pct {
		return 1 + int((z>>32)%4)
	}
	return 0
}

func splitmix64(x uint64) uint64 {
	x += 0x9e3779b97f4a7c15
	x = (x ^ (x >> 30)) * 0xbf58476d1ce4e5b9
	x = (x ^ (x >> 27)) * 0x94d049bb133111eb
	return x ^ (x >> 31)
}
