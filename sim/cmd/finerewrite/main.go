// finerewrite copies a checkout of the repository and instruments a few packages
// of the copy for the simulator's fine-grained mode (DESIGN.md section 15):
//
//   - after every statement of every function: verifhook.YieldHere("<file>:<line>:<func>")
//   - x.Lock()   ->  verifhook.BeforeLockFn(x.TryLock, x.Unlock, site); x.Lock(); verifhook.Held(1)
//   - x.Unlock() ->  x.Unlock(); verifhook.Held(-1)        (also inside defer)
//   - same for RLock/RUnlock with TryRLock
//
// usage: finerewrite <src repo> <dst dir> <sites.json> <pkg dir>...
package main

import (
	"bytes"
	"encoding/json"
	"fmt"
	"go/ast"
	"go/format"
	"go/parser"
	"go/token"
	"io/fs"
	"os"
	"path/filepath"
	"strings"
)

const hookImport = "github.com/formancehq/ledger/internal/verifhook"

var sites []string

func main() {
	if len(os.Args) < 5 {
		fmt.Fprintln(os.Stderr, "usage: finerewrite <src> <dst> <sites.json> <pkg dir>...")
		os.Exit(2)
	}
	src, dst, sitesPath := os.Args[1], os.Args[2], os.Args[3]
	if err := os.RemoveAll(dst); err != nil {
		fail(err)
	}
	if err := copyTree(src, dst); err != nil {
		fail(err)
	}
	for _, pkg := range os.Args[4:] {
		if strings.HasSuffix(pkg, ".go") { // a single file
			if err := rewriteFile(filepath.Join(dst, pkg), pkg); err != nil {
				fail(fmt.Errorf("%s: %w", pkg, err))
			}
			continue
		}
		dir := filepath.Join(dst, pkg)
		entries, err := os.ReadDir(dir)
		if err != nil {
			fail(err)
		}
		for _, e := range entries {
			n := e.Name()
			if e.IsDir() || !strings.HasSuffix(n, ".go") || strings.HasSuffix(n, "_test.go") {
				continue
			}
			if err := rewriteFile(filepath.Join(dir, n), filepath.Join(pkg, n)); err != nil {
				fail(fmt.Errorf("%s: %w", n, err))
			}
		}
	}
	b, _ := json.MarshalIndent(sites, "", " ")
	if err := os.WriteFile(sitesPath, b, 0o644); err != nil {
		fail(err)
	}
	fmt.Printf("instrumented %d sites\n", len(sites))
}

func fail(err error) {
	fmt.Fprintln(os.Stderr, "finerewrite:", err)
	os.Exit(1)
}

func copyTree(src, dst string) error {
	return filepath.WalkDir(src, func(p string, d fs.DirEntry, err error) error {
		if err != nil {
			return err
		}
		rel, _ := filepath.Rel(src, p)
		if rel == ".git" || strings.HasPrefix(rel, ".git"+string(filepath.Separator)) {
			if d.IsDir() {
				return filepath.SkipDir
			}
			return nil
		}
		target := filepath.Join(dst, rel)
		if d.IsDir() {
			return os.MkdirAll(target, 0o755)
		}
		if !d.Type().IsRegular() {
			return nil
		}
		b, err := os.ReadFile(p)
		if err != nil {
			return err
		}
		return os.WriteFile(target, b, 0o644)
	})
}

func rewriteFile(path, rel string) error {
	fset := token.NewFileSet()
	f, err := parser.ParseFile(fset, path, nil, parser.ParseComments)
	if err != nil {
		return err
	}
	// files guarded by a build constraint other than the verif tag are left alone
	for _, cg := range f.Comments {
		for _, c := range cg.List {
			if strings.HasPrefix(c.Text, "//go:build") && !strings.Contains(c.Text, "verif") {
				return nil
			}
		}
	}
	hookName := "verifhook"
	hasImport := false
	for _, im := range f.Imports {
		if strings.Trim(im.Path.Value, `"`) == hookImport {
			hasImport = true
			if im.Name != nil {
				hookName = im.Name.Name
			}
		}
	}
	changed := false
	r := &rewriter{fset: fset, rel: rel, hook: hookName}
	for _, d := range f.Decls {
		fd, ok := d.(*ast.FuncDecl)
		if !ok || fd.Body == nil {
			continue
		}
		r.fn = fd.Name.Name
		if fd.Recv != nil && len(fd.Recv.List) > 0 {
			r.fn = recvName(fd.Recv.List[0].Type) + "." + fd.Name.Name
		}
		r.block(fd.Body)
		changed = true
	}
	if !changed {
		return nil
	}
	if !hasImport {
		addImport(f, hookImport)
	}
	var keep []*ast.CommentGroup
	for _, cg := range f.Comments {
		if cg.End() < f.Package {
			keep = append(keep, cg)
		}
	}
	f.Comments = keep
	var buf bytes.Buffer
	if err := format.Node(&buf, fset, f); err != nil {
		return err
	}
	return os.WriteFile(path, buf.Bytes(), 0o644)
}

func recvName(e ast.Expr) string {
	switch x := e.(type) {
	case *ast.StarExpr:
		return recvName(x.X)
	case *ast.IndexExpr:
		return recvName(x.X)
	case *ast.IndexListExpr:
		return recvName(x.X)
	case *ast.Ident:
		return x.Name
	}
	return "?"
}

func addImport(f *ast.File, path string) {
	spec := &ast.ImportSpec{Path: &ast.BasicLit{Kind: token.STRING, Value: `"` + path + `"`}}
	for _, d := range f.Decls {
		if gd, ok := d.(*ast.GenDecl); ok && gd.Tok == token.IMPORT {
			gd.Specs = append(gd.Specs, spec)
			if !gd.Lparen.IsValid() {
				gd.Lparen = gd.Pos()
				gd.Rparen = gd.End()
			}
			return
		}
	}
	f.Decls = append([]ast.Decl{&ast.GenDecl{Tok: token.IMPORT, Specs: []ast.Spec{spec}}}, f.Decls...)
}

type rewriter struct {
	fset *token.FileSet
	rel  string
	fn   string
	hook string
}

func (r *rewriter) site(pos token.Pos) string {
	s := fmt.Sprintf("%s:%d:%s", r.rel, r.fset.Position(pos).Line, r.fn)
	sites = append(sites, s)
	return s
}

func (r *rewriter) call(name string, args ...ast.Expr) ast.Stmt {
	return &ast.ExprStmt{X: &ast.CallExpr{Fun: &ast.SelectorExpr{X: ast.NewIdent(r.hook), Sel: ast.NewIdent(name)}, Args: args}}
}

func str(s string) ast.Expr { return &ast.BasicLit{Kind: token.STRING, Value: fmt.Sprintf("%q", s)} }
func num(n int) ast.Expr {
	if n < 0 {
		return &ast.UnaryExpr{Op: token.SUB, X: &ast.BasicLit{Kind: token.INT, Value: fmt.Sprint(-n)}}
	}
	return &ast.BasicLit{Kind: token.INT, Value: fmt.Sprint(n)}
}

// mutexOp recognises x.Lock() / x.Unlock() / x.RLock() / x.RUnlock() without arguments.
func mutexOp(e ast.Expr) (recv ast.Expr, op string, ok bool) {
	c, isCall := e.(*ast.CallExpr)
	if !isCall || len(c.Args) != 0 {
		return nil, "", false
	}
	sel, isSel := c.Fun.(*ast.SelectorExpr)
	if !isSel {
		return nil, "", false
	}
	switch sel.Sel.Name {
	case "Lock", "Unlock", "RLock", "RUnlock":
		return sel.X, sel.Sel.Name, true
	}
	return nil, "", false
}

func isPanic(e ast.Expr) bool {
	c, ok := e.(*ast.CallExpr)
	if !ok {
		return false
	}
	id, ok := c.Fun.(*ast.Ident)
	return ok && id.Name == "panic"
}

func mutexOpStmt(st ast.Stmt) (ast.Expr, string, bool) {
	es, ok := st.(*ast.ExprStmt)
	if !ok {
		return nil, "", false
	}
	return mutexOp(es.X)
}

func method(recv ast.Expr, name string) ast.Expr {
	return &ast.SelectorExpr{X: recv, Sel: ast.NewIdent(name)}
}

func (r *rewriter) block(b *ast.BlockStmt) {
	if b == nil {
		return
	}
	b.List = r.list(b.List)
}

func (r *rewriter) list(in []ast.Stmt) []ast.Stmt {
	var out []ast.Stmt
	for idx, st := range in {
		last := idx == len(in)-1
		r.nested(st)
		switch s := st.(type) {
		case *ast.ExprStmt:
			if recv, op, ok := mutexOp(s.X); ok {
				site := r.site(s.Pos())
				switch op {
				case "Lock":
					out = append(out, r.call("BeforeLockFn", method(recv, "TryLock"), method(recv, "Unlock"), str(site)), st, r.call("Held", num(1)))
				case "RLock":
					out = append(out, r.call("BeforeLockFn", method(recv, "TryRLock"), method(recv, "RUnlock"), str(site)), st, r.call("Held", num(1)))
				default: // Unlock, RUnlock
					out = append(out, st, r.call("Held", num(-1)), r.call("YieldHere", str(site)))
				}
				continue
			}
			if isPanic(s.X) {
				out = append(out, st) // a terminating statement must stay the last one
				continue
			}
			out = append(out, st, r.call("YieldHere", str(r.site(s.End()))))
		case *ast.DeferStmt:
			if recv, op, ok := mutexOp(s.Call); ok && (op == "Unlock" || op == "RUnlock") {
				// defer x.Unlock()  ->  defer func() { x.Unlock(); verifhook.Held(-1) }()
				body := &ast.BlockStmt{List: []ast.Stmt{&ast.ExprStmt{X: &ast.CallExpr{Fun: method(recv, op)}}, r.call("Held", num(-1))}}
				out = append(out, &ast.DeferStmt{Call: &ast.CallExpr{Fun: &ast.FuncLit{Type: &ast.FuncType{Params: &ast.FieldList{}}, Body: body}}})
				continue
			}
			out = append(out, st)
		case *ast.AssignStmt, *ast.IncDecStmt, *ast.SendStmt, *ast.GoStmt, *ast.DeclStmt:
			out = append(out, st, r.call("YieldHere", str(r.site(st.End()))))
		case *ast.IfStmt, *ast.ForStmt, *ast.RangeStmt, *ast.SwitchStmt, *ast.TypeSwitchStmt, *ast.SelectStmt, *ast.BlockStmt:
			// a compound statement in last position may be the terminating statement of its function
			if last {
				out = append(out, st)
			} else {
				out = append(out, st, r.call("YieldHere", str(r.site(st.End()))))
			}
		default: // return, branch, labeled, empty ...
			out = append(out, st)
		}
	}
	return out
}

// nested instruments the statement lists inside a statement (and function literals).
func (r *rewriter) nested(st ast.Stmt) {
	switch s := st.(type) {
	case *ast.BlockStmt:
		r.block(s)
	case *ast.IfStmt:
		r.block(s.Body)
		if s.Else != nil {
			r.nested(s.Else)
		}
	case *ast.ForStmt:
		r.block(s.Body)
	case *ast.RangeStmt:
		r.block(s.Body)
	case *ast.SwitchStmt:
		r.clauses(s.Body)
	case *ast.TypeSwitchStmt:
		r.clauses(s.Body)
	case *ast.SelectStmt:
		r.clauses(s.Body)
		prioritise(s)
	case *ast.LabeledStmt:
		r.nested(s.Stmt)
	}
	// function literals anywhere inside the statement (closures handed to run(), go func, defer func)
	ast.Inspect(st, func(n ast.Node) bool {
		switch x := n.(type) {
		case *ast.FuncLit:
			saved := r.fn
			r.fn = saved + ".func"
			r.block(x.Body)
			r.fn = saved
			return false
		case *ast.BlockStmt, *ast.IfStmt, *ast.ForStmt, *ast.RangeStmt, *ast.SwitchStmt, *ast.TypeSwitchStmt, *ast.SelectStmt, *ast.CaseClause, *ast.CommClause:
			if n != ast.Node(st) {
				return false // handled by the structural recursion above
			}
		}
		return true
	})
}

func (r *rewriter) clauses(b *ast.BlockStmt) {
	if b == nil {
		return
	}
	for _, c := range b.List {
		switch cc := c.(type) {
		case *ast.CaseClause:
			cc.Body = r.list(cc.Body)
		case *ast.CommClause:
			cc.Body = r.list(cc.Body)
		}
	}
}

// prioritise makes a select deterministic. A task that was parked at a scheduling point may
// find several cases of its next select ready, and which one a select takes is the runtime's
// random choice, not the scheduler's. The cases are therefore polled in source order first
// (one legal outcome of the original statement), and only if none is ready does the goroutine
// block on all of them -- where it is woken by the first event, events being produced one at a
// time under the simulator:
//
//	select { case A: a; case B: b }   ->   select { case A: a; default: select { case B: b; default: select { case A: a; case B: b } } }
//
// The clause bodies are shared between the copies (the printer does not mind). An unlabelled
// break inside a body leaves the innermost select, after which nothing follows: same effect.
func prioritise(s *ast.SelectStmt) {
	var comm []ast.Stmt
	var def *ast.CommClause
	for _, c := range s.Body.List {
		cc := c.(*ast.CommClause)
		if cc.Comm == nil {
			def = cc
		} else {
			comm = append(comm, cc)
		}
	}
	if len(comm) < 2 {
		return
	}
	var tail []ast.Stmt
	if def != nil {
		tail = def.Body
	} else {
		tail = []ast.Stmt{&ast.SelectStmt{Body: &ast.BlockStmt{List: append([]ast.Stmt(nil), comm...)}}}
	}
	for i := len(comm) - 1; i >= 0; i-- {
		sel := &ast.SelectStmt{Body: &ast.BlockStmt{List: []ast.Stmt{comm[i], &ast.CommClause{Body: tail}}}}
		tail = []ast.Stmt{sel}
	}
	s.Body.List = tail[0].(*ast.SelectStmt).Body.List
}
