package verifsim

import (
	"context"
	"crypto/sha256"
	"encoding/hex"
	"encoding/json"
	"errors"
	"fmt"
	"math/big"
	"sort"
	"strings"

	ledger "github.com/formancehq/ledger/internal"
	"github.com/formancehq/ledger/internal/engine/command"
	"github.com/formancehq/ledger/internal/machine"
)

func shortHash(s string) string {
	h := sha256.Sum256([]byte(s))
	return hex.EncodeToString(h[:8])
}

// classify maps an error to a class name; error messages never enter the event
// log (they may contain map-ordered text).
func classify(err error) string {
	if err == nil {
		return "ok"
	}
	switch {
	case errors.Is(err, errDeadGen):
		return "dead"
	case errors.Is(err, errInjected):
		return "store-error"
	case errors.Is(err, errConstraint):
		return "store-constraint"
	case errors.Is(err, context.Canceled):
		return "cancelled"
	}
	for _, c := range []string{command.ErrInvalidTransactionCodeConflict, command.ErrInvalidTransactionCodeCompilationFailed,
		command.ErrInvalidTransactionCodeNoScript, command.ErrInvalidTransactionCodeNoPostings} {
		if command.IsInvalidTransactionError(err, c) {
			return "tx:" + c
		}
	}
	if command.IsErrMachine(err) {
		if machine.IsInsufficientFundError(err) {
			return "machine:insufficient-funds"
		}
		return "machine:other"
	}
	for _, c := range []string{command.ErrRevertTransactionCodeAlreadyReverted, command.ErrRevertTransactionCodeOccurring, command.ErrRevertTransactionCodeNotFound} {
		if command.IsRevertError(err, c) {
			return "revert:" + c
		}
	}
	if command.IsSaveMetaError(err, command.ErrSaveMetaCodeTransactionNotFound) {
		return "meta:TRANSACTION_NOT_FOUND"
	}
	if command.IsDeleteMetaError(err, command.ErrDeleteMetaCodeTransactionNotFound) {
		return "meta:TRANSACTION_NOT_FOUND"
	}
	if strings.Contains(err.Error(), "already taken") {
		return "in-flight-conflict"
	}
	if strings.HasPrefix(err.Error(), "panic:") {
		return "panic"
	}
	return "other"
}

// Entry is a committed row decoded from its stored bytes by the harness's own
// generic decoder (not by the repository's HydrateLog, which C13 audits).
type Entry struct {
	Idx        int
	Row        *Row
	Type       string
	Tx         *ledger.Transaction // NEW_TRANSACTION / REVERTED_TRANSACTION
	RevertedID string
	TargetType string
	TargetID   string
	Meta       map[string]string
	Key        string
	AcctMeta   map[string]map[string]string
	Marker     string
	MatchKey   string
	Published  int // events that described this entry (C16)
}

func decodeEntry(idx int, r *Row) (*Entry, error) {
	_, generic, err := normaliseJSON(r.Data)
	if err != nil {
		return nil, err
	}
	data := asMap(generic)
	e := &Entry{Idx: idx, Row: r, Type: r.Type}
	switch r.Type {
	case "NEW_TRANSACTION", "REVERTED_TRANSACTION":
		raw, _ := json.Marshal(data["transaction"])
		var tx ledger.Transaction
		if err := json.Unmarshal(raw, &tx); err != nil {
			return nil, err
		}
		if tx.ID == nil {
			return nil, fmt.Errorf("transaction without id")
		}
		e.Tx = &tx
		if r.Type == "REVERTED_TRANSACTION" {
			e.RevertedID = asString(data["revertedTransactionID"])
			e.MatchKey = "revert:" + e.RevertedID
		} else {
			e.Marker = tx.Metadata["req"]
			e.MatchKey = "req:" + e.Marker
			e.AcctMeta = map[string]map[string]string{}
			for k, v := range asMap(data["accountMetadata"]) {
				e.AcctMeta[k] = metaFromAny(v)
			}
		}
	case "SET_METADATA":
		e.TargetType = asString(data["targetType"])
		e.TargetID = asString(data["targetId"])
		e.Meta = metaFromAny(data["metadata"])
		e.Marker = e.Meta["sreq"]
		e.MatchKey = "sreq:" + e.Marker
	case "DELETE_METADATA":
		e.TargetType = asString(data["targetType"])
		e.TargetID = asString(data["targetId"])
		e.Key = asString(data["key"])
		e.MatchKey = "del:" + e.TargetType + ":" + e.TargetID + ":" + e.Key
	default:
		return nil, fmt.Errorf("unknown stored type %q", r.Type)
	}
	return e, nil
}

// matchKey of a request: which entries it may have produced.
func (o *OpRecord) matchKey() string {
	switch o.Op.Kind {
	case "script", "postings":
		return "req:" + o.Marker
	case "revert":
		return "revert:" + o.TargetTx.String()
	case "setmeta":
		return "sreq:" + o.Marker
	case "delmeta":
		if o.Op.OnTx {
			return "del:TRANSACTION:" + o.TargetTx.String() + ":" + o.Op.Key
		}
		return "del:ACCOUNT:" + o.TargetKey + ":" + o.Op.Key
	}
	return "?"
}

func metaEqual(a, b map[string]string) bool {
	if len(a) != len(b) {
		return false
	}
	for k, v := range a {
		if w, ok := b[k]; !ok || w != v {
			return false
		}
	}
	return true
}

func bigEq(a, b *big.Int) bool {
	if a == nil || b == nil {
		return a == nil && b == nil
	}
	return a.Cmp(b) == 0
}

func postingsEqual(a, b ledger.Postings) bool {
	if len(a) != len(b) {
		return false
	}
	for i := range a {
		if a[i].Source != b[i].Source || a[i].Destination != b[i].Destination || a[i].Asset != b[i].Asset || !bigEq(a[i].Amount, b[i].Amount) {
			return false
		}
	}
	return true
}

// txDiff returns "" when two transactions carry the same content.
func txDiff(a, b *ledger.Transaction) string {
	if a == nil || b == nil {
		if a == nil && b == nil {
			return ""
		}
		return "one transaction is nil"
	}
	var d []string
	if !bigEq(a.ID, b.ID) {
		d = append(d, fmt.Sprintf("id %v vs %v", a.ID, b.ID))
	}
	if !postingsEqual(a.Postings, b.Postings) {
		d = append(d, fmt.Sprintf("postings %s vs %s", fmtPostings(a.Postings), fmtPostings(b.Postings)))
	}
	if !metaEqual(a.Metadata, b.Metadata) {
		d = append(d, fmt.Sprintf("metadata %v vs %v", sortedMeta(a.Metadata), sortedMeta(b.Metadata)))
	}
	if a.Reference != b.Reference {
		d = append(d, fmt.Sprintf("reference %q vs %q", a.Reference, b.Reference))
	}
	if !a.Timestamp.Equal(b.Timestamp) {
		d = append(d, fmt.Sprintf("timestamp %s vs %s", a.Timestamp.Format(ledger.DateFormat), b.Timestamp.Format(ledger.DateFormat)))
	}
	return strings.Join(d, "; ")
}

func fmtPostings(ps ledger.Postings) string {
	var sb strings.Builder
	sb.WriteString("[")
	for i, p := range ps {
		if i > 0 {
			sb.WriteString(" ")
		}
		fmt.Fprintf(&sb, "%s->%s:%v%s", p.Source, p.Destination, p.Amount, p.Asset)
	}
	sb.WriteString("]")
	return sb.String()
}

func sortedMeta(m map[string]string) string {
	keys := make([]string, 0, len(m))
	for k := range m {
		keys = append(keys, k)
	}
	sort.Strings(keys)
	var sb strings.Builder
	for _, k := range keys {
		fmt.Fprintf(&sb, "%s=%q,", k, m[k])
	}
	return sb.String()
}
