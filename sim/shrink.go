package verifsim

import (
	"encoding/json"
	"time"
)

// ---------------------------------------------------------------------------
// Structural minimisation, run after rapid's own shrinking (which works on the
// random bit stream and is bounded by time): drop generations, clients,
// requests, prelude requests, faults; shorten and zero the schedule; simplify
// request attributes and knobs -- as long as the same violation class persists.
// ---------------------------------------------------------------------------

func cloneInput(in *Input) *Input {
	b, _ := json.Marshal(in)
	var out Input
	_ = json.Unmarshal(b, &out)
	return &out
}

// shrinkInput returns a smaller input for which fails() still holds.
func shrinkInput(in *Input, fails func(*Input) bool, decide func(*Input) []int, budget time.Duration) (*Input, int) {
	deadline := time.Now().Add(budget)
	cur := cloneInput(in)
	tries := 0
	try := func(mut func(c *Input) bool) bool {
		if time.Now().After(deadline) {
			return false
		}
		c := cloneInput(cur)
		if !mut(c) {
			return false
		}
		tries++
		if fails(c) {
			cur = c
			return true
		}
		return false
	}
	// the pseudo-random tail of the schedule becomes explicit decisions (same run), which the
	// passes below can then cut and zero one by one
	try(func(c *Input) bool {
		if c.TailPct == 0 && c.PCTDepth == 0 {
			return false
		}
		if decide != nil {
			c.Choices = decide(c) // what the run actually decided, step by step
		} else if c.PCTDepth == 0 {
			c.Choices = materialiseTail(c.Choices, c.TailSeed, c.TailPct, 4000)
		} else {
			return false
		}
		c.TailSeed, c.TailPct, c.PCTSeed, c.PCTDepth, c.PCTSpan = 0, 0, 0, 0, 0
		return true
	})
	for pass := 0; pass < 6 && time.Now().Before(deadline); pass++ {
		progress := false
		// generations (never the first one: the prelude runs there)
		for g := len(cur.Gens) - 1; g >= 1; g-- {
			g := g
			if try(func(c *Input) bool {
				c.Gens = append(c.Gens[:g], c.Gens[g+1:]...)
				return true
			}) {
				progress = true
			}
		}
		// clients
		for g := len(cur.Gens) - 1; g >= 0; g-- {
			for ci := len(cur.Gens[g].Clients) - 1; ci >= 0; ci-- {
				g, ci := g, ci
				if try(func(c *Input) bool {
					if g >= len(c.Gens) || ci >= len(c.Gens[g].Clients) {
						return false
					}
					c.Gens[g].Clients = append(c.Gens[g].Clients[:ci], c.Gens[g].Clients[ci+1:]...)
					return true
				}) {
					progress = true
				}
			}
		}
		// requests
		for g := len(cur.Gens) - 1; g >= 0; g-- {
			for ci := len(cur.Gens[g].Clients) - 1; ci >= 0; ci-- {
				for oi := len(cur.Gens[g].Clients[ci]) - 1; oi >= 0; oi-- {
					g, ci, oi := g, ci, oi
					if try(func(c *Input) bool {
						if g >= len(c.Gens) || ci >= len(c.Gens[g].Clients) || oi >= len(c.Gens[g].Clients[ci]) {
							return false
						}
						ops := c.Gens[g].Clients[ci]
						c.Gens[g].Clients[ci] = append(ops[:oi:oi], ops[oi+1:]...)
						return true
					}) {
						progress = true
					}
				}
			}
		}
		// prelude
		for i := len(cur.Prelude) - 1; i >= 0; i-- {
			i := i
			if try(func(c *Input) bool {
				if i >= len(c.Prelude) {
					return false
				}
				c.Prelude = append(c.Prelude[:i:i], c.Prelude[i+1:]...)
				return true
			}) {
				progress = true
			}
		}
		// faults
		for i := len(cur.Faults) - 1; i >= 0; i-- {
			i := i
			if try(func(c *Input) bool {
				if i >= len(c.Faults) {
					return false
				}
				c.Faults = append(c.Faults[:i:i], c.Faults[i+1:]...)
				return true
			}) {
				progress = true
			}
		}
		for i := range cur.SFaults {
			i := i
			if cur.SFaults[i].Len > 1 {
				if try(func(c *Input) bool { c.SFaults[i].Len = 0; return true }) {
					progress = true
				} else {
					try(func(c *Input) bool { c.SFaults[i].Len = (c.SFaults[i].Len + 1) / 2; return c.SFaults[i].Len > 1 })
				}
			}
		}
		for i := len(cur.SFaults) - 1; i >= 0; i-- {
			i := i
			if try(func(c *Input) bool {
				if i >= len(c.SFaults) {
					return false
				}
				c.SFaults = append(c.SFaults[:i:i], c.SFaults[i+1:]...)
				return true
			}) {
				progress = true
			}
		}
		// schedule: drop everything, halves, the tail; then zero single decisions
		if len(cur.Choices) > 0 {
			if try(func(c *Input) bool { c.Choices = nil; return true }) {
				progress = true
			}
			for n := len(cur.Choices) / 2; n >= 1 && len(cur.Choices) > 0; n /= 2 {
				n := n
				for try(func(c *Input) bool {
					if len(c.Choices) <= n {
						return false
					}
					c.Choices = c.Choices[:len(c.Choices)-n]
					return true
				}) {
					progress = true
				}
			}
			for i := len(cur.Choices) - 1; i >= 0; i-- {
				i := i
				if i < len(cur.Choices) && cur.Choices[i] != 0 {
					if try(func(c *Input) bool {
						if i >= len(c.Choices) {
							return false
						}
						c.Choices[i] = 0
						return true
					}) {
						progress = true
					} else if cur.Choices[i] > 1 {
						try(func(c *Input) bool { c.Choices[i] = 1; return true })
					}
				}
			}
			// trailing zeros carry no information
			for len(cur.Choices) > 0 && cur.Choices[len(cur.Choices)-1] == 0 {
				cur.Choices = cur.Choices[:len(cur.Choices)-1]
			}
		}
		// knobs
		for _, f := range []func(c *Input) bool{
			func(c *Input) bool { ch := len(c.Cfg.SitesOff) > 0; c.Cfg.SitesOff = nil; return ch },
			func(c *Input) bool {
				ch := c.TailPct != 0 || c.PCTDepth != 0
				c.TailSeed, c.TailPct, c.PCTSeed, c.PCTDepth, c.PCTSpan = 0, 0, 0, 0, 0
				return ch
			},
			func(c *Input) bool { ch := len(c.Cfg.FineSites) > 0; c.Cfg.FineSites = nil; return ch },
			func(c *Input) bool { ch := c.Cfg.FineHeld; c.Cfg.FineHeld = false; return ch },
			func(c *Input) bool { ch := c.Cfg.ClockCreepNs != 0; c.Cfg.ClockCreepNs = 0; return ch },
			func(c *Input) bool {
				if len(c.Cfg.FineSites) < 2 {
					return false
				}
				c.Cfg.FineSites = c.Cfg.FineSites[:len(c.Cfg.FineSites)/2]
				return true
			},
			func(c *Input) bool {
				if len(c.Cfg.FineSites) < 2 {
					return false
				}
				c.Cfg.FineSites = c.Cfg.FineSites[len(c.Cfg.FineSites)/2:]
				return true
			},
			func(c *Input) bool { ch := c.Cfg.CacheSize != largeCache; c.Cfg.CacheSize = largeCache; return ch },
			func(c *Input) bool { ch := c.Cfg.BatchSize != 4096; c.Cfg.BatchSize = 4096; return ch },
			func(c *Input) bool {
				if c.Cfg.Ledgers <= 1 {
					return false
				}
				c.Cfg.Ledgers = 1
				return true
			},
		} {
			if try(f) {
				progress = true
			}
		}
		// request attributes
		for g := range cur.Gens {
			for ci := range cur.Gens[g].Clients {
				for oi := range cur.Gens[g].Clients[ci] {
					g, ci, oi := g, ci, oi
					at := func(c *Input) *Op {
						if g >= len(c.Gens) || ci >= len(c.Gens[g].Clients) || oi >= len(c.Gens[g].Clients[ci]) {
							return nil
						}
						return &c.Gens[g].Clients[ci][oi]
					}
					for _, f := range []func(o *Op) bool{
						func(o *Op) bool { ch := o.IK != ""; o.IK = ""; return ch },
						func(o *Op) bool { ch := o.Ref != ""; o.Ref = ""; return ch },
						func(o *Op) bool { ch := o.MetaKey != ""; o.MetaKey = ""; return ch },
						func(o *Op) bool { ch := o.TS != "" && o.Tag == ""; o.TS = ""; return ch },
						func(o *Op) bool { ch := o.CancelAtYield != 0; o.CancelAtYield = 0; return ch },
						func(o *Op) bool { ch := o.DryRun && !o.Preview; o.DryRun = false; return ch },
						func(o *Op) bool { ch := o.Ledger != 0; o.Ledger = 0; return ch },
						func(o *Op) bool {
							if len(o.Postings) <= 1 {
								return false
							}
							o.Postings = o.Postings[:1]
							return true
						},
					} {
						f := f
						if try(func(c *Input) bool {
							o := at(c)
							return o != nil && f(o)
						}) {
							progress = true
						}
					}
				}
			}
		}
		if !progress {
			break
		}
	}
	return cur, tries
}

func cloneLockerIn(in *LockerIn) *LockerIn {
	b, _ := json.Marshal(in)
	var out LockerIn
	_ = json.Unmarshal(b, &out)
	return &out
}

func shrinkLockerIn(in *LockerIn, fails func(*LockerIn) bool, decide func(*LockerIn) []int, budget time.Duration) (*LockerIn, int) {
	deadline := time.Now().Add(budget)
	cur := cloneLockerIn(in)
	tries := 0
	try := func(mut func(c *LockerIn) bool) bool {
		if time.Now().After(deadline) {
			return false
		}
		c := cloneLockerIn(cur)
		if !mut(c) {
			return false
		}
		tries++
		if fails(c) {
			cur = c
			return true
		}
		return false
	}
	try(func(c *LockerIn) bool {
		if c.TailPct == 0 && c.PCTDepth == 0 {
			return false
		}
		c.Choices = decide(c)
		c.TailSeed, c.TailPct, c.PCTSeed, c.PCTDepth, c.PCTSpan = 0, 0, 0, 0, 0
		return true
	})
	for pass := 0; pass < 6 && time.Now().Before(deadline); pass++ {
		progress := false
		for ti := len(cur.Tasks) - 1; ti >= 0; ti-- {
			ti := ti
			if try(func(c *LockerIn) bool {
				if ti >= len(c.Tasks) || len(c.Tasks) <= 1 {
					return false
				}
				c.Tasks = append(c.Tasks[:ti:ti], c.Tasks[ti+1:]...)
				return true
			}) {
				progress = true
			}
		}
		for ti := len(cur.Tasks) - 1; ti >= 0; ti-- {
			for ri := len(cur.Tasks[ti]) - 1; ri >= 0; ri-- {
				ti, ri := ti, ri
				at := func(c *LockerIn) *LockReq {
					if ti >= len(c.Tasks) || ri >= len(c.Tasks[ti]) {
						return nil
					}
					return &c.Tasks[ti][ri]
				}
				if try(func(c *LockerIn) bool {
					if at(c) == nil || len(c.Tasks[ti]) <= 1 {
						return false
					}
					c.Tasks[ti] = append(c.Tasks[ti][:ri:ri], c.Tasks[ti][ri+1:]...)
					return true
				}) {
					progress = true
					continue
				}
				for _, f := range []func(r *LockReq) bool{
					func(r *LockReq) bool { ch := r.CancelAtYield != 0; r.CancelAtYield = 0; return ch },
					func(r *LockReq) bool { ch := r.Hold != 0; r.Hold = 0; return ch },
					func(r *LockReq) bool { ch := len(r.Read) > 0; r.Read = nil; return ch },
					func(r *LockReq) bool { ch := len(r.Write) > 0; r.Write = nil; return ch },
					func(r *LockReq) bool {
						if len(r.Read) < 2 {
							return false
						}
						r.Read = r.Read[:1]
						return true
					},
					func(r *LockReq) bool {
						if len(r.Write) < 2 {
							return false
						}
						r.Write = r.Write[:1]
						return true
					},
				} {
					f := f
					if try(func(c *LockerIn) bool {
						r := at(c)
						return r != nil && f(r)
					}) {
						progress = true
					}
				}
			}
		}
		for i := len(cur.Ticks) - 1; i >= 0; i-- {
			i := i
			if try(func(c *LockerIn) bool {
				if i >= len(c.Ticks) {
					return false
				}
				c.Ticks = append(c.Ticks[:i:i], c.Ticks[i+1:]...)
				return true
			}) {
				progress = true
			}
		}
		for i := len(cur.Cancels) - 1; i >= 0; i-- {
			i := i
			if try(func(c *LockerIn) bool {
				if i >= len(c.Cancels) {
					return false
				}
				c.Cancels = append(c.Cancels[:i:i], c.Cancels[i+1:]...)
				return true
			}) {
				progress = true
			}
		}
		if try(func(c *LockerIn) bool { ch := len(c.SitesOff) > 0; c.SitesOff = nil; return ch }) {
			progress = true
		}
		if try(func(c *LockerIn) bool {
			ch := c.TailPct != 0 || c.PCTDepth != 0
			c.TailSeed, c.TailPct, c.PCTSeed, c.PCTDepth, c.PCTSpan = 0, 0, 0, 0, 0
			return ch
		}) {
			progress = true
		}
		if len(cur.Choices) > 0 {
			if try(func(c *LockerIn) bool { c.Choices = nil; return true }) {
				progress = true
			}
			for n := len(cur.Choices) / 2; n >= 1 && len(cur.Choices) > 0; n /= 2 {
				n := n
				for try(func(c *LockerIn) bool {
					if len(c.Choices) <= n {
						return false
					}
					c.Choices = c.Choices[:len(c.Choices)-n]
					return true
				}) {
					progress = true
				}
			}
			for i := len(cur.Choices) - 1; i >= 0; i-- {
				i := i
				if i < len(cur.Choices) && cur.Choices[i] != 0 {
					if try(func(c *LockerIn) bool {
						if i >= len(c.Choices) {
							return false
						}
						c.Choices[i] = 0
						return true
					}) {
						progress = true
					}
				}
			}
			for len(cur.Choices) > 0 && cur.Choices[len(cur.Choices)-1] == 0 {
				cur.Choices = cur.Choices[:len(cur.Choices)-1]
			}
		}
		if !progress {
			break
		}
	}
	return cur, tries
}

// materialiseTail writes out the decisions Sched.pick would derive from (seed, pct) for the
// steps beyond the explicit choices.
func materialiseTail(choices []int, seed uint64, pct int, upTo int) []int {
	out := append([]int(nil), choices...)
	for i := len(out); i < upTo; i++ {
		out = append(out, tailChoice(seed, pct, i))
	}
	return out
}
