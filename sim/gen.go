package verifsim

import (
	"fmt"
	"strings"

	"pgregory.net/rapid"
)

// ---------------------------------------------------------------------------
// Swarm-style input generation (DESIGN.md section 4). rapid is the generator
// and the shrinker; everything is drawn before the bubble is entered.
// ---------------------------------------------------------------------------

type Profile struct {
	Name       string
	MaxClients int
	MaxOps     int
	MaxGens    int
	MaxLedgers int
	// weights of op kinds: script, postings, revert, setmeta, delmeta
	WKind [5]int
	Tpls  []int
	// per-cent rates
	IKPct, RefPct, DryPct, TSPct, BigPct, CancelPct int
	// faults (per-cent chance that the run has at least one of the kind)
	CrashPct, WriteFailPct, ReadFailPct, CancelBlockedPct, ClockPct int
	// SmallPools makes idempotency keys / references / revert targets collide often
	IKPool, RefPool, TargetPool int
	FundMax                     int
	AmountMax                   int
	MaskSites                   []string
	NoBuggify                   bool
	BigIDs                      bool     // some runs start from a ledger whose transaction ids are already huge
	BigCache                    bool     // always the large compilation cache (programs stay cached for the whole run)
	WorldVarPct                 int      // chance that a variable source of a script is bound to world
	DropKinds                   []string // op kinds removed (input masking of an open finding)
	oddKeys                     bool     // this run's idempotency keys are 300 characters long, its references end in a blank
}

// fineFocus narrows, in half of the fine-grained runs, the statement-level scheduling points to
// the file in which the property's mechanism lives (any file in the other half).
func fineFocus(t *rapid.T, profile string) string {
	focus := map[string][]string{
		"spend": {"command/lock.go", "command/commander.go"},
		"chain": {"batching/batcher.go", "job/jobs.go", "command/commander.go", "internal/log.go", "command/context.go"},
		"durab": {"batching/batcher.go", "job/jobs.go", "command/commander.go", "command/context.go"},
		"audit": {"internal/log.go"},
		"previ": {"internal/log.go", "command/context.go", "command/commander.go"},
		"idem-": {"command/reference.go", "command/commander.go"},
		"idem":  {"command/reference.go", "command/commander.go"},
		"ref":   {"command/reference.go", "command/commander.go"},
		"ref-n": {"command/reference.go", "command/commander.go"},
		"cache": {"command/compiler.go", "command/commander.go"},
		"rever": {"command/commander.go", "command/lock.go"},
	}
	k := profile
	if len(k) > 5 {
		k = k[:5]
	}
	f, ok := focus[k]
	if !ok || !pct(t, 50, "fineFocus") {
		return ""
	}
	return rapid.SampledFrom(f).Draw(t, "fineFile")
}

var allTpls = []int{tplLit, tplVar, tplMeta, tplOrdered, tplMax, tplOverdraftBounded, tplOverdraftUnbounded, tplAll, tplBalance, tplWorld, tplSplit, tplSetAccountMeta, tplTwoSends}

var profiles = map[string]Profile{
	// C02: scarce funds, many spenders, every way of naming a source
	"spend": {Name: "spend", MaxClients: 5, MaxOps: 3, MaxGens: 1, MaxLedgers: 1, WKind: [5]int{12, 3, 2, 2, 0},
		Tpls:  []int{tplLit, tplVar, tplMeta, tplOrdered, tplMax, tplOverdraftBounded, tplAll, tplBalance, tplTwoSends, tplSplit, tplLit, tplVar, tplMeta, tplOrderedVars, tplOrderedVars, tplSaveVar, tplFallbackWorld, tplFallbackOverdraft, tplFeeVars, tplFeeVars, tplFeeVars},
		IKPct: 0, RefPct: 0, DryPct: 3, CancelBlockedPct: 25, CancelPct: 4, IKPool: 2, RefPool: 2, TargetPool: 3, FundMax: 12, AmountMax: 12},
	// C02: one script text, many bindings -- whatever a request does to the cached, shared program
	// (or to anything else that outlives it) meets the next requests using the same text
	"spend-shared": {Name: "spend-shared", MaxClients: 5, MaxOps: 4, MaxGens: 1, MaxLedgers: 2, WKind: [5]int{14, 1, 1, 1, 0},
		Tpls: []int{tplOrderedVars, tplOrderedVars, tplOrderedVars, tplVar, tplMaxVars}, WorldVarPct: 25, NoBuggify: true, BigCache: true,
		CancelBlockedPct: 5, IKPool: 2, RefPool: 2, TargetPool: 3, FundMax: 10, AmountMax: 12},
	"spend-faults": {Name: "spend-faults", MaxClients: 5, MaxOps: 3, MaxGens: 3, MaxLedgers: 2, WKind: [5]int{12, 3, 2, 2, 0}, ClockPct: 20,
		Tpls:     []int{tplLit, tplVar, tplMeta, tplOrdered, tplMax, tplOverdraftBounded, tplAll, tplBalance, tplTwoSends, tplOrderedVars, tplFallbackWorld, tplFallbackOverdraft, tplFeeVars},
		CrashPct: 60, WriteFailPct: 20, ReadFailPct: 20, CancelBlockedPct: 20, CancelPct: 5, IKPool: 2, RefPool: 2, TargetPool: 3, FundMax: 12, AmountMax: 12},
	// C05: mixed writers, batch boundaries everywhere, restarts
	"chain": {Name: "chain", BigIDs: true, MaxClients: 6, MaxOps: 4, MaxGens: 4, MaxLedgers: 2, WKind: [5]int{6, 3, 3, 3, 2},
		Tpls:  []int{tplWorld, tplLit, tplVar, tplOverdraftUnbounded, tplSetAccountMeta},
		IKPct: 10, RefPct: 10, DryPct: 10, CrashPct: 70, WriteFailPct: 15, ReadFailPct: 10, ClockPct: 20, IKPool: 3, RefPool: 3, TargetPool: 4, CancelBlockedPct: 20, CancelPct: 6, FundMax: 50, AmountMax: 5},
	"chain-nofault": {Name: "chain-nofault", MaxClients: 6, MaxOps: 4, MaxGens: 3, MaxLedgers: 2, WKind: [5]int{6, 3, 3, 3, 2},
		Tpls:  []int{tplWorld, tplLit, tplVar, tplOverdraftUnbounded, tplSetAccountMeta},
		IKPct: 10, RefPct: 10, DryPct: 10, ClockPct: 20, IKPool: 3, RefPool: 3, TargetPool: 4, FundMax: 50, AmountMax: 5},
	// C06: all faults
	"durability": {Name: "durability", BigIDs: true, MaxClients: 5, MaxOps: 4, MaxGens: 4, MaxLedgers: 2, WKind: [5]int{6, 3, 3, 3, 3},
		Tpls:  []int{tplWorld, tplLit, tplVar, tplOverdraftBounded, tplAll, tplSetAccountMeta, tplMeta},
		IKPct: 15, RefPct: 15, DryPct: 5, TSPct: 20, CrashPct: 70, WriteFailPct: 40, ReadFailPct: 40, CancelBlockedPct: 25, CancelPct: 10, ClockPct: 30,
		IKPool: 3, RefPool: 3, TargetPool: 4, FundMax: 20, AmountMax: 8},
	"durability-nofault": {Name: "durability-nofault", MaxClients: 5, MaxOps: 4, MaxGens: 2, MaxLedgers: 2, WKind: [5]int{6, 3, 3, 3, 3},
		Tpls:  []int{tplWorld, tplLit, tplVar, tplOverdraftBounded, tplAll, tplSetAccountMeta, tplMeta},
		IKPct: 15, RefPct: 15, DryPct: 5, TSPct: 20, IKPool: 3, RefPool: 3, TargetPool: 4, FundMax: 20, AmountMax: 8},
	// C07
	"idem": {Name: "idem", BigIDs: true, MaxClients: 5, MaxOps: 3, MaxGens: 4, MaxLedgers: 2, WKind: [5]int{6, 3, 3, 3, 2}, ClockPct: 15,
		Tpls:  []int{tplWorld, tplLit, tplVar, tplOverdraftUnbounded},
		IKPct: 80, RefPct: 5, DryPct: 3, CrashPct: 60, WriteFailPct: 20, ReadFailPct: 10, IKPool: 2, RefPool: 2, TargetPool: 2, CancelBlockedPct: 20, CancelPct: 6, FundMax: 30, AmountMax: 5},
	"idem-nofault": {Name: "idem-nofault", MaxClients: 5, MaxOps: 3, MaxGens: 3, MaxLedgers: 1, WKind: [5]int{6, 3, 3, 3, 2},
		Tpls:  []int{tplWorld, tplLit, tplVar, tplOverdraftUnbounded},
		IKPct: 80, RefPct: 5, DryPct: 3, IKPool: 2, RefPool: 2, TargetPool: 2, FundMax: 30, AmountMax: 5},
	// C08 cache clause: few texts, tiny cache, two ledgers sharing the compiler
	"cache": {Name: "cache", MaxClients: 6, MaxOps: 4, MaxGens: 2, MaxLedgers: 2, WKind: [5]int{10, 6, 1, 1, 0}, ClockPct: 10,
		Tpls:  []int{tplWorld, tplOverdraftUnbounded, tplSetAccountMeta, tplVar, tplLit, tplWorld, tplOverdraftUnbounded, tplOrderedVars, tplArith, tplPortionVar, tplMetaVar, tplAssetVar, tplSaveVar, tplRaw},
		IKPct: 0, RefPct: 0, DryPct: 5, IKPool: 2, RefPool: 2, TargetPool: 3, FundMax: 100, AmountMax: 4},
	"cache-shared": {Name: "cache-shared", MaxClients: 5, MaxOps: 4, MaxGens: 2, MaxLedgers: 2, WKind: [5]int{14, 2, 0, 1, 0},
		Tpls: []int{tplOrderedVars, tplVar, tplArith, tplArith, tplPortionVar, tplMetaVar, tplAssetVar, tplAssetVar, tplSaveVar, tplOverdraftUnbounded, tplRaw, tplRaw, tplMaxVars}, WorldVarPct: 25, BigCache: true,
		IKPool: 2, RefPool: 2, TargetPool: 3, FundMax: 100, AmountMax: 4},
	// C10
	"revert": {Name: "revert", BigIDs: true, MaxClients: 5, MaxOps: 3, MaxGens: 3, MaxLedgers: 2, WKind: [5]int{4, 4, 10, 1, 0}, ClockPct: 10,
		Tpls:  []int{tplLit, tplVar, tplAll, tplTwoSends, tplSplit, tplWorld},
		IKPct: 15, RefPct: 0, DryPct: 3, CrashPct: 40, WriteFailPct: 10, IKPool: 2, RefPool: 2, TargetPool: 3, CancelBlockedPct: 20, CancelPct: 6, FundMax: 12, AmountMax: 10},
	"revert-nofault": {Name: "revert-nofault", MaxClients: 5, MaxOps: 3, MaxGens: 2, MaxLedgers: 1, WKind: [5]int{4, 4, 10, 1, 0},
		Tpls:  []int{tplLit, tplVar, tplAll, tplTwoSends, tplSplit, tplWorld},
		IKPct: 15, RefPct: 0, DryPct: 3, IKPool: 2, RefPool: 2, TargetPool: 3, FundMax: 12, AmountMax: 10},
	// C11
	"ref": {Name: "ref", MaxClients: 5, MaxOps: 3, MaxGens: 3, MaxLedgers: 2, WKind: [5]int{8, 5, 1, 1, 0}, ClockPct: 10,
		Tpls:  []int{tplWorld, tplLit, tplVar, tplAll},
		IKPct: 5, RefPct: 85, DryPct: 3, CrashPct: 40, WriteFailPct: 10, ReadFailPct: 10, IKPool: 2, RefPool: 2, TargetPool: 2, CancelBlockedPct: 20, CancelPct: 6, FundMax: 8, AmountMax: 10},
	"ref-nofault": {Name: "ref-nofault", MaxClients: 5, MaxOps: 3, MaxGens: 2, MaxLedgers: 1, WKind: [5]int{8, 5, 1, 1, 0},
		Tpls:  []int{tplWorld, tplLit, tplVar, tplAll},
		IKPct: 5, RefPct: 85, DryPct: 3, IKPool: 2, RefPool: 2, TargetPool: 2, FundMax: 8, AmountMax: 10},
	// C13: every entry kind gets to be the last entry at a restart and the target of an IK retry
	"audit": {Name: "audit", BigIDs: true, MaxClients: 3, MaxOps: 3, MaxGens: 4, MaxLedgers: 1, WKind: [5]int{4, 4, 3, 4, 4},
		Tpls:  []int{tplWorld, tplLit, tplVar, tplSetAccountMeta, tplOverdraftUnbounded, tplMaxVars, tplMaxVars},
		IKPct: 40, RefPct: 20, DryPct: 0, TSPct: 60, BigPct: 40, CrashPct: 70, WriteFailPct: 25, ReadFailPct: 10, ClockPct: 60, IKPool: 3, RefPool: 3, TargetPool: 4, CancelBlockedPct: 20, CancelPct: 6, FundMax: 30, AmountMax: 5},
	// C16
	"events": {Name: "events", BigIDs: true, CrashPct: 45, WriteFailPct: 20, ReadFailPct: 10, MaxClients: 5, MaxOps: 3, MaxGens: 3, MaxLedgers: 2, WKind: [5]int{5, 3, 5, 3, 3}, ClockPct: 25,
		Tpls:  []int{tplWorld, tplLit, tplVar, tplSetAccountMeta, tplAll},
		IKPct: 25, RefPct: 5, DryPct: 20, CancelPct: 8, CancelBlockedPct: 25, IKPool: 2, RefPool: 2, TargetPool: 3, FundMax: 20, AmountMax: 6},
	// C14 invariant form under concurrency
	"preview": {Name: "preview", MaxClients: 4, MaxOps: 4, MaxGens: 2, MaxLedgers: 1, WKind: [5]int{6, 3, 3, 3, 3}, ClockPct: 15,
		Tpls:  []int{tplWorld, tplLit, tplVar, tplAll, tplSetAccountMeta, tplBalance, tplOverdraftUnbounded, tplMeta},
		IKPct: 30, RefPct: 30, DryPct: 45, IKPool: 1, RefPool: 1, TargetPool: 2, FundMax: 20, AmountMax: 6},
}

// rawScripts: fixed texts, some valid, some not (syntax error, undeclared variable, ill-typed,
// near-identical pairs): refusals must be the same with and without the cache.
var rawScripts = []string{
	"send [USD 1] (\n\tsource = @world\n\tdestination = @a0\n)\n",
	"send [USD 1] (\n\tsource = @world\n\tdestination = @a1\n)\n",
	"send [USD 1] (\n\tsource = @world\n\tdestination = @a0\n",
	"send [USD 1] (\n\tsource = @world\n\tdestination = $nope\n)\n",
	"vars {\n\tmonetary $m\n}\nsend $m (\n\tsource = $m\n\tdestination = @a0\n)\n",
	"send [USD 2] (\n\tsource = @world\n\tdestination = {\n\t\t1/2 to @a0\n\t\t2/3 to @a1\n\t}\n)\n",
	"send [USD 2] (\n\tsource = @world\n\tdestination = {\n\t\t1/2 to @a0\n\t\t1/2 to @a1\n\t}\n)\n",
	"send [USD 0] (\n\tsource = @world\n\tdestination = @a0\n)\n",
	"print [USD 1]\n",
	"",
}

var bigAmounts = []string{"0", "1", "9223372036854775807", "9223372036854775808", "18446744073709551615", "18446744073709551616", "340282366920938463463374607431768211456"}

var odd = []string{"", "é✓", "a\"b", "a\\b", "<&>", " sp ace ", "日本"}

var crashPoints = []string{"store.InsertLogs", "store.InsertLogs.post", "append.chained", "append.done", "run.done", "exec.txid", "exec.locked",
	"pub.COMMITTED_TRANSACTIONS", "client.return", "exec.persisted", "store.GetBalance", "run.ik.checked", "exec.ref.checked", "revert.loaded"}

var readMethods = []string{"GetBalance", "GetAccount", "GetTransaction", "GetTransactionByReference", "ReadLogWithIdempotencyKey", "GetLastLog", "GetLastTransaction"}

var tsSamples = []string{"2023-01-02T03:04:05Z", "2023-01-02T03:04:05.000001Z", "2023-01-02T03:04:05.123456789Z", "2023-01-02T03:04:05.9999995Z",
	"2023-06-30T23:59:59.999999+02:00", "1999-12-31T23:59:59.5-11:00", "2040-02-29T12:00:00.000000999Z", "2023-01-02T03:04:05.1Z"}

func pct(t *rapid.T, p int, label string) bool {
	if p <= 0 {
		return false
	}
	if p >= 100 {
		return true
	}
	return rapid.IntRange(0, 99).Draw(t, label) < p
}

func weighted(t *rapid.T, w []int, label string) int {
	tot := 0
	for _, x := range w {
		tot += x
	}
	if tot == 0 {
		return 0
	}
	v := rapid.IntRange(0, tot-1).Draw(t, label)
	for i, x := range w {
		if v < x {
			return i
		}
		v -= x
	}
	return 0
}

var kindNames = []string{"script", "postings", "revert", "setmeta", "delmeta"}

func genOp(t *rapid.T, p *Profile, cfg *Config) Op {
	w := p.WKind[:]
	op := Op{Kind: kindNames[weighted(t, w, "kind")]}
	for _, d := range p.DropKinds {
		if op.Kind == d {
			op.Kind = "script"
		}
	}
	if cfg.Ledgers > 1 {
		op.Ledger = rapid.IntRange(0, cfg.Ledgers-1).Draw(t, "ledger")
	}
	amount := func(label string) string {
		if pct(t, p.BigPct, label+".big") {
			return rapid.SampledFrom(bigAmounts).Draw(t, label+".bigv")
		}
		return fmt.Sprint(rapid.IntRange(0, p.AmountMax).Draw(t, label))
	}
	acct := func(label string) int { return rapid.IntRange(0, cfg.Accounts-1).Draw(t, label) }
	switch op.Kind {
	case "script":
		op.Tpl = rapid.SampledFrom(p.Tpls).Draw(t, "tpl")
		op.Src, op.Src2, op.Dst, op.Dst2 = acct("src"), acct("src2"), acct("dst"), acct("dst2")
		// the same account reached through two resources of one script (two variables, a
		// variable and a literal): aliasing is where per-resource bookkeeping goes wrong
		if pct(t, 30, "aliasSrc") {
			op.Src2 = op.Src
		}
		wv := p.WorldVarPct
		if wv == 0 {
			wv = 15
		}
		if (op.Tpl == tplVar || op.Tpl == tplOrderedVars) && pct(t, wv, "worldVar") {
			// a variable bound to world
			if pct(t, 50, "worldVarWhich") {
				op.Src = -1
			} else {
				op.Src2 = -1
			}
		}
		op.Asset = rapid.IntRange(0, 1).Draw(t, "asset") / 1 // mostly the first asset
		if op.Asset == 1 && !pct(t, 30, "asset2") {
			op.Asset = 0
		}
		op.Amount = amount("amount")
		op.Cap = fmt.Sprint(rapid.IntRange(0, p.AmountMax).Draw(t, "cap"))
		if op.Tpl == tplRaw {
			op.Raw = rapid.SampledFrom(rawScripts).Draw(t, "raw")
		}
		if pct(t, 15, "oddMeta") {
			op.Value = rapid.SampledFrom(odd).Draw(t, "oddMetaV")
		}
		// request metadata under the key some scripts set themselves (set_tx_meta("via", ...)):
		// those requests are refused late, after the program has run
		if pct(t, 6, "metaClash") {
			op.MetaKey = "via"
		}
	case "postings":
		n := rapid.IntRange(1, 3).Draw(t, "npost")
		for i := 0; i < n; i++ {
			ps := PostingSpec{Src: rapid.IntRange(-1, cfg.Accounts-1).Draw(t, "psrc"), Dst: rapid.IntRange(-1, cfg.Accounts-1).Draw(t, "pdst"), Amount: amount("pamount")}
			// money passing through: a later posting is paid out of what an earlier one received (the
			// account is then first met as a destination and only later as a source)
			if i > 0 && pct(t, 35, "chain") {
				ps.Src = op.Postings[rapid.IntRange(0, i-1).Draw(t, "chainFrom")].Dst
			}
			op.Postings = append(op.Postings, ps)
		}
	case "revert":
		op.Target = rapid.IntRange(0, p.TargetPool).Draw(t, "target")
		op.Force = pct(t, 30, "force")
	case "setmeta":
		op.OnTx = pct(t, 40, "ontx")
		op.Target = rapid.IntRange(0, cfg.Accounts).Draw(t, "mtarget")
		if !op.OnTx && pct(t, 50, "cfgsrc") {
			op.Target = cfg.Accounts // the cfg account
			op.Key = "src"
			op.Value = acctName(acct("srcval"))
		} else {
			op.Key = rapid.SampledFrom([]string{"k0", "k1", ""}).Draw(t, "mkey")
			op.Value = rapid.SampledFrom(odd).Draw(t, "mval")
		}
	case "delmeta":
		op.OnTx = pct(t, 40, "ontx")
		op.Target = rapid.IntRange(0, cfg.Accounts).Draw(t, "mtarget")
		op.Key = rapid.SampledFrom([]string{"k0", "k1", "src", "req", "sreq"}).Draw(t, "dkey")
	}
	if pct(t, p.IKPct, "hasik") {
		op.IK = fmt.Sprintf("ik%d", rapid.IntRange(0, p.IKPool).Draw(t, "ik"))
		if p.oddKeys {
			op.IK += strings.Repeat("k", 300) // longer than the column that stores it
		}
	}
	if (op.Kind == "script" || op.Kind == "postings") && pct(t, p.RefPct, "hasref") {
		op.Ref = fmt.Sprintf("r%d", rapid.IntRange(0, p.RefPool).Draw(t, "ref"))
		if p.oddKeys {
			op.Ref += " " // a reference is an opaque string: blanks are part of it
		}
	}
	op.DryRun = pct(t, p.DryPct, "dry")
	if (op.Kind == "script" || op.Kind == "postings") && pct(t, p.TSPct, "hasts") {
		op.TS = rapid.SampledFrom(tsSamples).Draw(t, "ts")
	}
	if pct(t, p.CancelPct, "cancel") {
		op.CancelAtYield = rapid.IntRange(1, 8).Draw(t, "cancelAt")
	}
	return op
}

// GenInput draws a complete run input for a profile.
func GenInput(t *rapid.T, p *Profile) *Input {
	pp := *p
	p = &pp
	p.oddKeys = pct(t, 12, "oddKeys")
	in := &Input{Profile: p.Name}
	cfg := &in.Cfg
	cfg.Ledgers = rapid.IntRange(1, max(1, p.MaxLedgers)).Draw(t, "ledgers")
	cfg.Accounts = rapid.IntRange(2, 4).Draw(t, "accounts")
	cfg.CacheSize = rapid.SampledFrom([]int{1, 1, largeCache}).Draw(t, "cache")
	if p.BigCache {
		cfg.CacheSize = largeCache
	}
	cfg.BatchSize = rapid.SampledFrom([]int{1, 2, 3, 4096}).Draw(t, "batch")
	if !p.NoBuggify {
		nOff := rapid.IntRange(0, 4).Draw(t, "nSitesOff")
		for i := 0; i < nOff; i++ {
			cfg.SitesOff = append(cfg.SitesOff, rapid.SampledFrom(optionalSites).Draw(t, "siteOff"))
		}
	}
	cfg.MaskSites = p.MaskSites
	// always at least a nanosecond per step: two timers armed at different steps never tie
	cfg.ClockCreepNs = rapid.SampledFrom([]int64{1, 1, 137, 1000}).Draw(t, "creepNs")
	if len(fineSiteList) > 0 {
		cfg.FineSites = genFineSites(t, fineFocus(t, p.Name))
		cfg.FineHeld = len(cfg.FineSites) > 0 && rapid.Bool().Draw(t, "fineHeld")
	}
	bigPct := 20
	if p.Name == "audit" {
		bigPct = 50
	}
	if p.BigIDs && pct(t, bigPct, "bigIDs") {
		cfg.TxIDBase = rapid.SampledFrom([]string{"16777217", "9007199254740993", "4294967296"}).Draw(t, "txIdBase")
	}

	// prelude: funding, the metadata-designated source, a few transactions to revert
	for l := 0; l < cfg.Ledgers; l++ {
		for a := 0; a < cfg.Accounts; a++ {
			f := rapid.IntRange(0, p.FundMax).Draw(t, "fund")
			if f > 0 {
				in.Prelude = append(in.Prelude, Op{Kind: "script", Ledger: l, Tpl: tplWorld, Dst: a, Amount: fmt.Sprint(f)})
			}
		}
		in.Prelude = append(in.Prelude, Op{Kind: "setmeta", Ledger: l, Target: cfg.Accounts, Key: "src", Value: acctName(rapid.IntRange(0, cfg.Accounts-1).Draw(t, "cfgsrc0"))})
		nseed := rapid.IntRange(0, 2).Draw(t, "seedtx")
		for i := 0; i < nseed; i++ {
			in.Prelude = append(in.Prelude, Op{Kind: "postings", Ledger: l, Postings: []PostingSpec{{Src: -1, Dst: rapid.IntRange(0, cfg.Accounts-1).Draw(t, "seeddst"), Amount: fmt.Sprint(rapid.IntRange(1, 5).Draw(t, "seedamt"))}}})
		}
	}

	// Some runs start on a ledger that is (almost) empty: the first log, the first transaction id
	// and the first entries of every kind are then written by racing clients, not by the
	// single-threaded prelude.
	if pct(t, 8, "shortPrelude") {
		if k := rapid.IntRange(0, 1).Draw(t, "preludeLen"); k < len(in.Prelude) {
			in.Prelude = in.Prelude[:k]
		}
	}

	ngens := rapid.IntRange(1, max(1, p.MaxGens)).Draw(t, "gens")
	for g := 0; g < ngens; g++ {
		var gp GenPlan
		nc := rapid.IntRange(1, p.MaxClients).Draw(t, "clients")
		for c := 0; c < nc; c++ {
			no := rapid.IntRange(1, p.MaxOps).Draw(t, "nops")
			ops := make([]Op, 0, no)
			for i := 0; i < no; i++ {
				ops = append(ops, genOp(t, p, cfg))
			}
			gp.Clients = append(gp.Clients, ops)
		}
		in.Gens = append(in.Gens, gp)
	}

	// faults
	if pct(t, p.CrashPct, "hasCrash") {
		n := rapid.IntRange(1, max(1, ngens-1+1)).Draw(t, "ncrash")
		for i := 0; i < n; i++ {
			f := Fault{Kind: "crash"}
			if pct(t, 60, "crashAtPoint") {
				f.Point = rapid.SampledFrom(crashPoints).Draw(t, "crashPoint")
				f.Nth = rapid.IntRange(1, 6).Draw(t, "crashNth")
			} else {
				f.Step = rapid.IntRange(1, 200).Draw(t, "crashStep")
			}
			in.Faults = append(in.Faults, f)
		}
	}
	if pct(t, p.CrashPct/3, "hasShutdown") {
		f := Fault{Kind: "shutdown"}
		if pct(t, 60, "shutdownAtPoint") {
			f.Point = rapid.SampledFrom([]string{"store.InsertLogs", "store.InsertLogs.post", "append.done", "append.chained", "run.done"}).Draw(t, "shutdownPoint")
			f.Nth = rapid.IntRange(1, 6).Draw(t, "shutdownNth")
		} else {
			f.Step = rapid.IntRange(1, 200).Draw(t, "shutdownStep")
		}
		in.Faults = append(in.Faults, f)
	}
	if pct(t, p.CancelBlockedPct, "hasCancelBlocked") {
		n := rapid.IntRange(1, 3).Draw(t, "ncancel")
		for i := 0; i < n; i++ {
			in.Faults = append(in.Faults, Fault{Kind: "cancelBlocked", Step: rapid.IntRange(1, 150).Draw(t, "cancelStep"), Arg: int64(rapid.IntRange(0, 3).Draw(t, "cancelWho"))})
		}
	}
	if pct(t, p.ClockPct, "hasClock") {
		n := rapid.IntRange(1, 3).Draw(t, "nclock")
		for i := 0; i < n; i++ {
			if rapid.Bool().Draw(t, "clockNs") {
				// off the microsecond grid: what the engine stamps must still survive storage
				in.Faults = append(in.Faults, Fault{Kind: "clockns", Step: rapid.IntRange(1, 150).Draw(t, "clockStep"),
					Arg: rapid.SampledFrom([]int64{1, 7, 499, 500, 501, 999, 1001, 123456789, 999999999}).Draw(t, "clockJumpNs")})
				continue
			}
			in.Faults = append(in.Faults, Fault{Kind: "clock", Step: rapid.IntRange(1, 150).Draw(t, "clockStep"),
				Arg: rapid.SampledFrom([]int64{1, 999, 1000, 1000000, 61000000, 3600000000}).Draw(t, "clockJump")})
		}
	}
	// a storm of small steps of the clock spread over the run: timers of a few milliseconds to
	// a few seconds (leases, back-off, linger, polling) fire while requests are in flight
	if pct(t, p.ClockPct/2+4, "clockStorm") {
		n := rapid.IntRange(4, 14).Draw(t, "nStorm")
		for i := 0; i < n; i++ {
			in.Faults = append(in.Faults, Fault{Kind: "clock", Step: rapid.IntRange(1, 300).Draw(t, "stormStep"),
				Arg: rapid.SampledFrom([]int64{1000, 60000, 300000, 1100000, 2500000, 6000000, 31000000}).Draw(t, "stormUs")})
		}
	}
	sortFaults(in.Faults)
	if pct(t, p.WriteFailPct, "hasWriteFail") {
		sf := StoreFail{Ledger: rapid.IntRange(0, cfg.Ledgers-1).Draw(t, "wfLedger"), Method: "InsertLogs",
			Nth: rapid.IntRange(1, 10).Draw(t, "wfNth"), Mode: rapid.IntRange(1, 2).Draw(t, "wfMode")}
		if pct(t, 25, "wfOutage") {
			// an outage rather than a single error: whatever retries, retries into it
			sf.Len, sf.Mode = rapid.IntRange(2, 14).Draw(t, "wfLen"), 1
		}
		in.SFaults = append(in.SFaults, sf)
	}
	if pct(t, p.ReadFailPct, "hasReadFail") {
		n := rapid.IntRange(1, 2).Draw(t, "nReadFail")
		for i := 0; i < n; i++ {
			in.SFaults = append(in.SFaults, StoreFail{Ledger: rapid.IntRange(0, cfg.Ledgers-1).Draw(t, "rfLedger"),
				Method: rapid.SampledFrom(readMethods).Draw(t, "rfMethod"), Nth: rapid.IntRange(1, 12).Draw(t, "rfNth"), Mode: 1})
		}
	}

	// schedule
	ppct := rapid.SampledFrom([]int{0, 10, 30, 60}).Draw(t, "preemptPct")
	nch := rapid.IntRange(0, 120).Draw(t, "nchoices")
	if len(cfg.FineSites) > 0 {
		// statement-level points only matter when the scheduler switches tasks at them
		ppct = rapid.SampledFrom([]int{20, 40, 70}).Draw(t, "finePreemptPct")
		nch = rapid.IntRange(60, 400).Draw(t, "fineNchoices")
	}
	if ppct > 0 {
		for i := 0; i < nch; i++ {
			c := 0
			if rapid.IntRange(0, 99).Draw(t, "pre") < ppct {
				c = rapid.IntRange(1, 4).Draw(t, "ch")
			}
			in.Choices = append(in.Choices, c)
		}
	}
	switch rapid.IntRange(0, 3).Draw(t, "schedStyle") {
	case 0, 1:
		in.TailSeed = rapid.Uint64().Draw(t, "tailSeed")
		in.TailPct = rapid.SampledFrom([]int{5, 20, 50}).Draw(t, "tailPct")
	case 2:
		// priority scheduling (PCT) from the first decision on: fixed random task priorities,
		// a few demotion points
		in.Choices = nil
		in.PCTSeed = rapid.Uint64().Draw(t, "pctSeed")
		in.PCTDepth = rapid.IntRange(1, 4).Draw(t, "pctDepth")
		in.PCTSpan = rapid.SampledFrom([]int{50, 150, 400}).Draw(t, "pctSpan")
	}
	return in
}

// sortFaults keeps step-triggered faults in step order (stable for the rest).
func sortFaults(fs []Fault) {
	for i := 1; i < len(fs); i++ {
		for j := i; j > 0; j-- {
			a, b := fs[j-1], fs[j]
			if a.Point == "" && b.Point == "" && a.Step > b.Step {
				fs[j-1], fs[j] = b, a
			} else {
				break
			}
		}
	}
}
