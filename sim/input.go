package verifsim

import (
	"fmt"
	"strings"
)

// ---------------------------------------------------------------------------
// Inputs of one simulated run. Everything is plain data, drawn before the
// bubble is entered (DESIGN.md section 8); a replay file is this structure.
// ---------------------------------------------------------------------------

type Input struct {
	Profile string      `json:"profile"`
	Cfg     Config      `json:"cfg"`
	Prelude []Op        `json:"prelude,omitempty"`
	Gens    []GenPlan   `json:"gens"`
	Faults  []Fault     `json:"faults,omitempty"`
	SFaults []StoreFail `json:"storeFaults,omitempty"`
	Choices []int       `json:"choices,omitempty"`
	// Tail decides the scheduling decisions after the explicit Choices are used up: with TailPct
	// per cent probability per step another task than the running one is taken, the decision being
	// a pure function of (TailSeed, step index). Zero = the running task keeps running.
	TailSeed uint64 `json:"tailSeed,omitempty"`
	TailPct  int    `json:"tailPct,omitempty"`
	// PCT: instead, priority scheduling after the explicit Choices (Sched.pctPick): fixed random
	// task priorities from PCTSeed, PCTDepth-1 demotion points among the first PCTSpan decisions.
	PCTSeed  uint64 `json:"pctSeed,omitempty"`
	PCTDepth int    `json:"pctDepth,omitempty"`
	PCTSpan  int    `json:"pctSpan,omitempty"`
}

type Config struct {
	Ledgers   int      `json:"ledgers"`
	Accounts  int      `json:"accounts"`
	CacheSize int      `json:"cacheSize"`
	BatchSize int      `json:"batchSize"`
	SitesOff  []string `json:"sitesOff,omitempty"`
	// MaskSites are switched off on top of SitesOff by campaign (B) of a check
	// (DESIGN.md section 8, site masking).
	MaskSites []string `json:"maskSites,omitempty"`
	// TxIDBase, when set, seeds every ledger with one earlier transaction carrying that id, as
	// a ledger with a long history would have: ids beyond 2^24 / 2^53 reach the decoders.
	TxIDBase string `json:"txIdBase,omitempty"`
	// FineSites: statement-level scheduling points enabled in this run (fine-grained mode only).
	FineSites []string `json:"fineSites,omitempty"`
	// FineHeld: a task may also be parked at a statement-level point while it holds a mutex of the
	// rewritten packages (whose Lock calls all park instead of blocking): interleavings *inside*
	// critical sections, e.g. two ledgers' append sections meeting in package-level state.
	FineHeld bool `json:"fineHeld,omitempty"`
	// ClockCreepNs: the clock moves by this much at every scheduling step. Timers armed at
	// different steps then have different deadlines and fire one at a time (the bubble's clock is
	// discrete-event), instead of all at once at the next jump; and log dates differ.
	ClockCreepNs int64 `json:"clockCreepNs,omitempty"`
}

type GenPlan struct {
	Clients [][]Op `json:"clients"`
}

// Fault is applied by the scheduler at a quiescent point.
//
//	Kind "crash":          the generation dies.
//	Kind "cancelBlocked":  cancel the request of the Arg-th client that is blocked in engine code (not parked).
//	Kind "clock":          the clock jumps forward by Arg microseconds.
//	Kind "clockns":        the clock jumps forward by Arg nanoseconds (off the microsecond grid).
//
// Trigger: if Point is empty the fault fires at the first step >= Step; otherwise it
// fires when some task parks at Point for the Nth time (counted over the run).
type Fault struct {
	Kind  string `json:"kind"`
	Step  int    `json:"step,omitempty"`
	Point string `json:"point,omitempty"`
	Nth   int    `json:"nth,omitempty"`
	Arg   int64  `json:"arg,omitempty"`
	// OpTag: the fault fires while the request with that tag is in flight (and, if Point is
	// set, some task is parked at Point).
	OpTag string `json:"opTag,omitempty"`
}

// StoreFail makes the Nth call of Method on a ledger's store fail.
// Mode 1: error, nothing done. Mode 2 (InsertLogs only): committed, then error.
type StoreFail struct {
	Ledger int    `json:"ledger"`
	Method string `json:"method"`
	Nth    int    `json:"nth"`
	Mode   int    `json:"mode"`
	// Len > 1 makes it an outage: calls Nth .. Nth+Len-1 of Method fail (across restarts: the
	// count belongs to the store, not to the process).
	Len int `json:"len,omitempty"`
	// OpTag, when set, makes Nth count the calls of Method made on behalf of the request of that
	// name only (the ledger is then the request's): the fault follows the request wherever the
	// schedule -- or the removal of other requests, as in the C14 differential -- puts it.
	OpTag string `json:"opTag,omitempty"`
}

type PostingSpec struct {
	Src    int    `json:"src"` // account index, -1 = world
	Dst    int    `json:"dst"`
	Asset  int    `json:"asset"`
	Amount string `json:"amount"`
}

// Op is one client request.
type Op struct {
	Kind   string `json:"kind"` // script | postings | revert | setmeta | delmeta
	Ledger int    `json:"ledger,omitempty"`

	// script
	Tpl    int    `json:"tpl,omitempty"`
	Src    int    `json:"src,omitempty"`
	Src2   int    `json:"src2,omitempty"`
	Dst    int    `json:"dst,omitempty"`
	Dst2   int    `json:"dst2,omitempty"`
	Asset  int    `json:"asset,omitempty"`
	Amount string `json:"amount,omitempty"`
	Cap    string `json:"cap,omitempty"`
	Raw    string `json:"raw,omitempty"` // tpl == tplRaw: literal script text

	// postings
	Postings []PostingSpec `json:"postings,omitempty"`

	// revert
	Target int  `json:"target,omitempty"`
	Force  bool `json:"force,omitempty"`

	// metadata
	OnTx  bool   `json:"onTx,omitempty"`
	Key   string `json:"key,omitempty"`
	Value string `json:"value,omitempty"`

	// common
	IK     string `json:"ik,omitempty"`
	Ref    string `json:"ref,omitempty"`
	DryRun bool   `json:"dryRun,omitempty"`
	TS     string `json:"ts,omitempty"` // RFC3339Nano text as a client would send it; "" = server time

	// CancelAtYield > 0: the request's context is cancelled when its task parks for the
	// k-th time inside this request.
	CancelAtYield int `json:"cancelAtYield,omitempty"`
	// Pair marks this op as "the real write issued right after an identical preview"
	// (C14); Twin is the index of its preview in the same client.
	Twin int `json:"twin,omitempty"`
	// Tag, when set, names the request (and its marker) instead of its position, so that
	// two runs of related histories can be compared request by request (C14).
	Tag string `json:"tag,omitempty"`
	// Preview marks a request that exists only in the history with previews (C14).
	Preview bool `json:"preview,omitempty"`
	// MetaKey, when set, is one more key of the request's metadata (scripts only): "via" clashes
	// with what some templates set through set_tx_meta, which the engine refuses after the run.
	MetaKey string `json:"metaKey,omitempty"`
}

const (
	tplLit = iota
	tplVar
	tplMeta
	tplOrdered
	tplMax
	tplOverdraftBounded
	tplOverdraftUnbounded
	tplAll
	tplBalance
	tplWorld
	tplSplit
	tplSetAccountMeta
	tplTwoSends
	tplRaw
	tplOrderedVars
	tplArith
	tplPortionVar
	tplMetaVar
	tplAssetVar
	tplSaveVar
	tplFallbackWorld     // { @s @world }: a bounded source in front of an unbounded fallback
	tplFallbackOverdraft // { @s  @s2 allowing unbounded overdraft }
	tplFeeVars           // three account variables, the non-source one declared first (may alias the source)
	tplMaxVars           // a capped variable source in front of a second variable source (they may be the same account); the cap is a literal of the shared text
	numTpl
)

var tplNames = []string{"lit", "var", "meta", "ordered", "max", "odb", "odu", "all", "bal", "world", "split", "setacctmeta", "two", "raw", "orderedvars", "arith", "portionvar", "metavar", "assetvar", "savevar", "fbworld", "fboverdraft", "feevars", "maxvars"}

var assetNames = []string{"USD", "EUR/2"}

const cfgAccount = "cfg"

// largeCache: a compilation cache size no run can fill (a run never has that many distinct
// script texts), i.e. "no eviction". Not the production default of 1024: gcache pre-allocates
// its tables, and every simulated process death leaves goroutines behind that pin them.
const largeCache = 96

func acctName(i int) string {
	if i < 0 {
		return "world"
	}
	return fmt.Sprintf("a%d", i)
}

func assetName(i int) string {
	return assetNames[((i%len(assetNames))+len(assetNames))%len(assetNames)]
}

// scriptFor renders the Numscript text and variables of a script op.
func scriptFor(op *Op) (plain string, vars map[string]string) {
	a := assetName(op.Asset)
	s, s2, d, d2 := acctName(op.Src), acctName(op.Src2), acctName(op.Dst), acctName(op.Dst2)
	amt := op.Amount
	if amt == "" {
		amt = "1"
	}
	cp := op.Cap
	if cp == "" {
		cp = "1"
	}
	vars = map[string]string{}
	var sb strings.Builder
	switch op.Tpl {
	case tplLit:
		fmt.Fprintf(&sb, "send [%s %s] (\n\tsource = @%s\n\tdestination = @%s\n)\n", a, amt, s, d)
	case tplVar:
		sb.WriteString("vars {\n\taccount $s\n\taccount $d\n\tmonetary $m\n}\nsend $m (\n\tsource = $s\n\tdestination = $d\n)\n")
		vars["s"], vars["d"], vars["m"] = s, d, a+" "+amt
	case tplMeta:
		fmt.Fprintf(&sb, "vars {\n\taccount $s = meta(@%s, \"src\")\n}\nsend [%s %s] (\n\tsource = $s\n\tdestination = @%s\n)\n", cfgAccount, a, amt, d)
	case tplOrdered:
		fmt.Fprintf(&sb, "send [%s %s] (\n\tsource = {\n\t\t@%s\n\t\t@%s\n\t}\n\tdestination = @%s\n)\n", a, amt, s, s2, d)
	case tplMax:
		fmt.Fprintf(&sb, "send [%s %s] (\n\tsource = {\n\t\tmax [%s %s] from @%s\n\t\t@%s\n\t}\n\tdestination = @%s\n)\n", a, amt, a, cp, s, s2, d)
	case tplOverdraftBounded:
		fmt.Fprintf(&sb, "send [%s %s] (\n\tsource = @%s allowing overdraft up to [%s %s]\n\tdestination = @%s\n)\n", a, amt, s, a, cp, d)
	case tplOverdraftUnbounded:
		fmt.Fprintf(&sb, "send [%s %s] (\n\tsource = @%s allowing unbounded overdraft\n\tdestination = @%s\n)\n", a, amt, s, d)
	case tplAll:
		fmt.Fprintf(&sb, "send [%s *] (\n\tsource = @%s\n\tdestination = @%s\n)\n", a, s, d)
	case tplBalance:
		fmt.Fprintf(&sb, "vars {\n\tmonetary $b = balance(@%s, %s)\n}\nsend $b (\n\tsource = @%s\n\tdestination = @%s\n)\n", s, a, s2, d)
	case tplWorld:
		fmt.Fprintf(&sb, "send [%s %s] (\n\tsource = @world\n\tdestination = @%s\n)\n", a, amt, d)
	case tplSplit:
		fmt.Fprintf(&sb, "send [%s %s] (\n\tsource = @%s\n\tdestination = {\n\t\t1/2 to @%s\n\t\tremaining to @%s\n\t}\n)\n", a, amt, s, d, d2)
	case tplSetAccountMeta:
		fmt.Fprintf(&sb, "send [%s %s] (\n\tsource = @world\n\tdestination = @%s\n)\nset_account_meta(@%s, \"src\", @%s)\nset_tx_meta(\"via\", \"script\")\n", a, amt, d, cfgAccount, s)
	case tplTwoSends:
		fmt.Fprintf(&sb, "send [%s %s] (\n\tsource = @%s\n\tdestination = @%s\n)\nsend [%s %s] (\n\tsource = @%s\n\tdestination = @%s\n)\n", a, amt, s, d, a, amt, d, d2)
	case tplOrderedVars:
		// one text, many bindings (a variable may be bound to world): the compiled program is
		// shared through the cache by requests that name different accounts
		sb.WriteString("vars {\n\taccount $s\n\taccount $s2\n\taccount $d\n\tmonetary $m\n}\nsend $m (\n\tsource = {\n\t\t$s\n\t\t$s2\n\t}\n\tdestination = $d\n)\n")
		vars["s"], vars["s2"], vars["d"], vars["m"] = s, s2, d, a+" "+amt
	case tplArith:
		// fixed text, the varying part travels in a variable: monetary arithmetic on a literal
		fmt.Fprintf(&sb, "vars {\n\tmonetary $fee\n}\nsend [%s 5] + $fee (\n\tsource = @world\n\tdestination = @%s\n)\n", a, d)
		vars["fee"] = a + " " + amt
	case tplPortionVar:
		fmt.Fprintf(&sb, "vars {\n\tportion $p\n\tmonetary $m\n}\nsend $m (\n\tsource = @world\n\tdestination = {\n\t\t$p to @%s\n\t\tremaining to @%s\n\t}\n)\n", d, d2)
		vars["p"], vars["m"] = []string{"1/2", "1/3", "25%", "0%", "100%", "3/7"}[mod(op.Src, 6)], a+" "+amt
	case tplMetaVar:
		fmt.Fprintf(&sb, "vars {\n\tstring $v\n\taccount $acc\n\tmonetary $m\n}\nsend $m (\n\tsource = @world\n\tdestination = $acc\n)\nset_tx_meta(\"note\", $v)\nset_account_meta($acc, \"note\", $v)\n")
		vars["v"], vars["acc"], vars["m"] = "v"+cp, d, a+" "+amt
	case tplAssetVar:
		// the asset of a monetary literal (and of a send-all) comes from a variable
		fmt.Fprintf(&sb, "vars {\n\tasset $ass\n}\nsend [$ass %s] (\n\tsource = @world\n\tdestination = @%s\n)\n", cp, d)
		vars["ass"] = a
	case tplSaveVar:
		// save ... from: the kept amount travels in a variable; @world pays the rest
		fmt.Fprintf(&sb, "vars {\n\tmonetary $keep\n\taccount $acc\n}\nsave $keep from $acc\nsend [%s 3] (\n\tsource = {\n\t\t$acc\n\t\t@world\n\t}\n\tdestination = @%s\n)\n", a, d)
		vars["keep"], vars["acc"] = a+" "+amt, s
	case tplFallbackWorld:
		fmt.Fprintf(&sb, "send [%s %s] (\n\tsource = {\n\t\t@%s\n\t\t@world\n\t}\n\tdestination = @%s\n)\n", a, amt, s, d)
	case tplFallbackOverdraft:
		fmt.Fprintf(&sb, "send [%s %s] (\n\tsource = {\n\t\t@%s\n\t\t@%s allowing unbounded overdraft\n\t}\n\tdestination = @%s\n)\n", a, amt, s, s2, d)
	case tplFeeVars:
		sb.WriteString("vars {\n\taccount $fee\n\taccount $from\n\taccount $to\n\tmonetary $m\n}\nsend $m (\n\tsource = $from\n\tdestination = {\n\t\t10% to $fee\n\t\tremaining to $to\n\t}\n)\n")
		vars["fee"], vars["from"], vars["to"], vars["m"] = s2, s, d, a+" "+amt
	case tplMaxVars:
		fmt.Fprintf(&sb, "vars {\n\taccount $s\n\taccount $s2\n\taccount $d\n\tmonetary $m\n}\nsend $m (\n\tsource = {\n\t\tmax [%s %s] from $s\n\t\t$s2\n\t}\n\tdestination = $d\n)\n", a, cp)
		vars["s"], vars["s2"], vars["d"], vars["m"] = s, s2, d, a+" "+amt
	case tplRaw:
		sb.WriteString(op.Raw)
	default:
		fmt.Fprintf(&sb, "send [%s %s] (\n\tsource = @world\n\tdestination = @%s\n)\n", a, amt, d)
	}
	return sb.String(), vars
}

func (op *Op) Summary() string {
	var b strings.Builder
	switch op.Kind {
	case "script":
		tn := "?"
		if op.Tpl >= 0 && op.Tpl < len(tplNames) {
			tn = tplNames[op.Tpl]
		}
		fmt.Fprintf(&b, "script/%s s=%s s2=%s d=%s d2=%s %s amt=%s cap=%s", tn, acctName(op.Src), acctName(op.Src2), acctName(op.Dst), acctName(op.Dst2), assetName(op.Asset), op.Amount, op.Cap)
	case "postings":
		b.WriteString("postings")
		for _, p := range op.Postings {
			fmt.Fprintf(&b, " %s->%s:%s%s", acctName(p.Src), acctName(p.Dst), p.Amount, assetName(p.Asset))
		}
	case "revert":
		fmt.Fprintf(&b, "revert k=%d force=%v", op.Target, op.Force)
	case "setmeta":
		fmt.Fprintf(&b, "setmeta tx=%v target=%d %s=%q", op.OnTx, op.Target, op.Key, op.Value)
	case "delmeta":
		fmt.Fprintf(&b, "delmeta tx=%v target=%d key=%s", op.OnTx, op.Target, op.Key)
	default:
		b.WriteString(op.Kind)
	}
	if op.Ledger != 0 {
		fmt.Fprintf(&b, " L%d", op.Ledger)
	}
	if op.IK != "" {
		fmt.Fprintf(&b, " ik=%s", op.IK)
	}
	if op.Ref != "" {
		fmt.Fprintf(&b, " ref=%s", op.Ref)
	}
	if op.DryRun {
		b.WriteString(" dry")
	}
	if op.TS != "" {
		fmt.Fprintf(&b, " ts=%s", op.TS)
	}
	if op.CancelAtYield > 0 {
		fmt.Fprintf(&b, " cancel@%d", op.CancelAtYield)
	}
	return b.String()
}
