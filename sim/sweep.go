package verifsim

import (
	"flag"
	"fmt"
	"os"
	"runtime"
	"sort"
	"strings"
	"testing"
	"time"

	"pgregory.net/rapid"
)

// runSweep is the thorough-tier crash sweep (DESIGN.md section 4): take a
// fault-free schedule of S steps and re-run it S times with a crash at step
// 1..S (the prefix replays exactly), each time followed by a restart and more
// writes.
func runSweep(t *testing.T) {
	prop := *fProp
	known := loadKnown(*fKnown)
	eng := ledgerEngine(prop, known)
	out := &WorkerOut{Property: prop, Worker: *fWorker, Seed: *fSeed, Counters: map[string]int{}, PerProfile: map[string]int{}, Known: map[string]int{}, KnownReplay: map[string]string{}}
	hashes := map[string]struct{}{}
	start := time.Now()
	deadline := start.Add(*fBudget)
	_ = flag.Set("rapid.nofailfile", "true")
	_ = flag.Set("rapid.checks", "1")
	batch := *fBatch
	var failIn *Input
	var failV Violation
	account := func(res *Result, in *Input) bool {
		out.Runs++
		out.PerProfile["crash-sweep"]++
		out.Steps += int64(res.Steps)
		out.SimTimeUs += res.SimTime.Microseconds()
		for k, v := range res.Counters {
			out.Counters[k] += v
		}
		if nontrivial(prop, res) {
			out.Nontrivial++
			hashes[res.Digest[:16]] = struct{}{}
			if len(out.Samples) < 2 {
				out.Samples = append(out.Samples, sampleOf(in, res))
			}
		}
		if res.HarnessErr != "" {
			harnessExit(out, res.HarnessErr, in)
		}
		for _, v := range res.Violations {
			if v.Prop != prop {
				continue
			}
			if k := matchKnown(known, v); k != nil {
				out.Known[v.Sig()]++
				continue
			}
			failIn, failV = in, v
			return false
		}
		return true
	}
	for time.Now().Before(deadline) && failIn == nil {
		var ms runtime.MemStats
		runtime.ReadMemStats(&ms)
		if ms.HeapInuse > 400<<20 {
			out.Counters["worker.recycled-for-memory"]++
			break
		}
		rseed := deriveSeed(*fSeed, *fWorker, batch, 99)
		_ = flag.Set("rapid.seed", fmt.Sprint(rseed))
		var base *Input
		tb := &recTB{}
		b := batch
		rapid.Check(tb, func(rt *rapid.T) {
			base = eng.gen(rt, b).(*Input)
		})
		batch++
		if base == nil {
			continue
		}
		// fault-free base: no crash, no cancellation; at least one generation after the crash
		base.Faults = nil
		base.SFaults = nil
		if len(base.Gens) < 2 {
			base.Gens = append(base.Gens, base.Gens[0])
		}
		res := Run(t, base, prop, false)
		ok := account(res, base)
		if !ok {
			break
		}
		// length of the first generation in steps
		S := res.Steps
		for _, g := range res.Gens {
			if g.Idx == 0 && g.deadStep > 0 {
				S = g.deadStep
			}
		}
		out.Counters["sweep.schedules"]++
		res.Release()
		for k := 1; k <= S && time.Now().Before(deadline); k++ {
			in := *base
			in.Faults = []Fault{{Kind: "crash", Step: k}}
			r := Run(t, &in, prop, false)
			out.Counters["sweep.crash-steps"]++
			ok := account(r, &in)
			r.Release()
			if !ok {
				break
			}
		}
	}
	out.NextBatch = batch
	out.WallS = time.Since(start).Seconds()
	if failIn != nil {
		small, n := eng.shrink(t, failIn, failV.Sig())
		out.ShrinkRuns += n
		failIn = small.(*Input)
		v := failV
		out.Violation = &v
		out.Replay = writeReplay(t, eng, failIn, failV, 0, false)
	}
	if *fOut != "" {
		writeJSON(*fOut, out)
		hs := make([]string, 0, len(hashes))
		for h := range hashes {
			hs = append(hs, h)
		}
		sort.Strings(hs)
		_ = os.WriteFile(*fOut+".hashes", []byte(strings.Join(hs, "\n")), 0o644)
	}
	if failIn != nil {
		fmt.Printf("FOUND property=%s class=%s replay=%s\n", failV.Prop, failV.Class, out.Replay)
	}
}
