package verifsim

import (
	"encoding/json"
	"flag"
	"fmt"
	"os"
	"os/exec"
	"runtime"
	"sort"
	"strings"
	"testing"
	"time"

	"pgregory.net/rapid"
)

// ---------------------------------------------------------------------------
// Entry point of the simulator binary (a `go test -c` binary, because
// testing/synctest needs a *testing.T). Driven by /verif/check.
// ---------------------------------------------------------------------------

var (
	fMode     = flag.String("sim.mode", "", "batch | replay | digest | sweep | diff | locker")
	fProp     = flag.String("sim.prop", "", "property id")
	fProfiles = flag.String("sim.profiles", "", "comma separated profile names")
	fSeed     = flag.Uint64("sim.seed", 1, "VERIF_SEED")
	fWorker   = flag.Int("sim.worker", 0, "worker index")
	fBudget   = flag.Duration("sim.budget", 10*time.Second, "wall-clock budget of this worker")
	fFresh    = flag.Bool("sim.fresh", false, "one simulated run per OS process, nothing re-executed in it (code under test that keeps state in package-level variables)")
	fMaxRuns  = flag.Int("sim.maxruns", 30000, "runs after which the worker process ends (leaked zombie goroutines are bounded that way)")
	fOut      = flag.String("sim.out", "", "result file (json)")
	fFile     = flag.String("sim.file", "", "replay file")
	fKnown    = flag.String("sim.known", "", "known findings file")
	fMask     = flag.Bool("sim.mask", false, "campaign B: sites / op kinds of open findings switched off")
	fBatch    = flag.Int("sim.batch", 0, "first batch index")
	fN        = flag.Int("sim.n", 100, "number of seeds (digest mode)")
	fReplays  = flag.String("sim.replaydir", "", "directory for replay files")
	fBig      = flag.Bool("sim.big", false, "thorough tier: larger populations (one more client, twice the requests per client, one more generation)")
	fFine     = flag.String("sim.finesites", "", "fine-grained mode: list of the instrumented sites of this binary (json)")
	fOnly     = flag.Int("sim.only", -1, "digest mode: only this index (with -sim.dump: to look at one run)")
	fDump     = flag.Bool("sim.dump", false, "digest mode: print the event logs too")
	fDigest   = flag.Bool("sim.digest", false, "print one event-log digest per seed instead of checking (determinism self-test)")
)

type KnownFinding struct {
	Property string   `json:"property"`
	Class    string   `json:"class"`
	Features []string `json:"features,omitempty"` // all must be present in the violation's features
	What     string   `json:"what"`
	Status   string   `json:"status"` // "open" | "fixed"
	Commit   string   `json:"commit,omitempty"`
	// masking while the finding is open
	MaskSites []string `json:"mask_sites,omitempty"`
	MaskKinds []string `json:"mask_kinds,omitempty"`
}

type KnownFile struct {
	Findings []KnownFinding `json:"findings"`
}

func loadKnown(path string) []KnownFinding {
	if path == "" {
		return nil
	}
	b, err := os.ReadFile(path)
	if err != nil {
		return nil
	}
	var kf KnownFile
	if err := json.Unmarshal(b, &kf); err != nil {
		fmt.Fprintf(os.Stderr, "known findings file unreadable: %v\n", err)
		os.Exit(2)
	}
	var out []KnownFinding
	for _, k := range kf.Findings {
		if k.Status == "open" {
			out = append(out, k)
		}
	}
	return out
}

func matchKnown(known []KnownFinding, v Violation) *KnownFinding {
	for i := range known {
		k := &known[i]
		if k.Property != v.Prop || k.Class != v.Class {
			continue
		}
		ok := true
		for _, f := range k.Features {
			found := false
			for _, g := range v.Features {
				if f == g {
					found = true
				}
			}
			if !found {
				ok = false
			}
		}
		if ok {
			return k
		}
	}
	return nil
}

// recTB lets rapid report a failure without failing the hosting test.
type recTB struct {
	failed bool
	msgs   []string
}

func (r *recTB) Helper()              {}
func (r *recTB) Name() string         { return "sim" }
func (r *recTB) Logf(string, ...any)  {}
func (r *recTB) Log(...any)           {}
func (r *recTB) Skipf(string, ...any) {}
func (r *recTB) Skip(...any)          {}
func (r *recTB) SkipNow()             {}
func (r *recTB) Errorf(f string, a ...any) {
	r.failed = true
	r.msgs = append(r.msgs, fmt.Sprintf(f, a...))
}
func (r *recTB) Error(a ...any) { r.failed = true; r.msgs = append(r.msgs, fmt.Sprint(a...)) }
func (r *recTB) Fatalf(f string, a ...any) {
	r.failed = true
	r.msgs = append(r.msgs, fmt.Sprintf(f, a...))
}
func (r *recTB) Fatal(a ...any) { r.failed = true; r.msgs = append(r.msgs, fmt.Sprint(a...)) }
func (r *recTB) FailNow()       { r.failed = true }
func (r *recTB) Fail()          { r.failed = true }
func (r *recTB) Failed() bool   { return r.failed }

type ReplayFile struct {
	Property  string   `json:"property"`
	Class     string   `json:"class"`
	Detail    string   `json:"detail"`
	Features  []string `json:"features,omitempty"`
	Seed      uint64   `json:"seed"`
	RapidSeed uint64   `json:"rapid_seed"`
	Engine    string   `json:"engine"`
	Tool      string   `json:"tool"`
	// Binary: "fine" when the run was made by the binary built from the instrumented copy of the
	// sources (its mutex operations are scheduling points, so even a run that enables no
	// statement-level site may differ from the plain binary's); the driver replays with the same.
	Binary string    `json:"binary,omitempty"`
	Input  *Input    `json:"input,omitempty"`
	Locker *LockerIn `json:"locker_input,omitempty"`
	Diff   *DiffIn   `json:"diff_input,omitempty"`
	Digest string    `json:"expected_event_log_digest"`
	Trace  []string  `json:"trace"`
}

// engine abstracts over the three simulations (ledger, locker, differential preview).
type engine struct {
	name       string
	gen        func(rt *rapid.T, batch int) any
	run        func(t *testing.T, in any, keep bool) *Result
	nontrivial func(res *Result) bool
	sample     func(in any, res *Result) any
	profName   func(batch int) string
	fill       func(rf *ReplayFile, in any)
	// shrink structurally minimises a failing input while the violation class persists
	shrink func(t *testing.T, in any, sig string) (any, int)
}

func hasSig(res *Result, sig string) bool {
	defer res.Release()
	if res.HarnessErr != "" {
		return false
	}
	for _, v := range res.Violations {
		if v.Sig() == sig {
			return true
		}
	}
	return false
}

type WorkerOut struct {
	Property   string `json:"property"`
	Worker     int    `json:"worker"`
	Seed       uint64 `json:"seed"`
	Runs       int    `json:"runs"`
	ShrinkRuns int    `json:"shrink_runs"`
	Nontrivial int    `json:"nontrivial"`
	Steps      int64  `json:"steps"`
	Preempts   int64  `json:"preempts"`
	SimTimeUs  int64  `json:"sim_time_us"`
	// Unreproducible: first violation this worker found and dropped because a fresh process did
	// not reproduce it from its replay file
	Unreproducible string            `json:"unreproducible,omitempty"`
	WallS          float64           `json:"wall_s"`
	Counters       map[string]int    `json:"counters"`
	PerProfile     map[string]int    `json:"runs_per_profile"`
	Samples        []any             `json:"samples"`
	Violation      *Violation        `json:"violation,omitempty"`
	Replay         string            `json:"replay,omitempty"`
	Known          map[string]int    `json:"known_hits,omitempty"`
	KnownReplay    map[string]string `json:"known_replays,omitempty"`
	HarnessErr     string            `json:"harness_error,omitempty"`
	DetChecks      int               `json:"determinism_rechecks"`
	DetMismatch    int               `json:"determinism_mismatches"`
	Goroutines     int               `json:"goroutines_left_at_end"`
	NextBatch      int               `json:"next_batch"`
	Hashes         []string          `json:"-"`
	StateHashes    int               `json:"distinct_final_states"`
}

func splitmix(x uint64) uint64 {
	x += 0x9e3779b97f4a7c15
	z := x
	z = (z ^ (z >> 30)) * 0xbf58476d1ce4e5b9
	z = (z ^ (z >> 27)) * 0x94d049bb133111eb
	return z ^ (z >> 31)
}

func deriveSeed(base uint64, worker, batch int, salt uint64) uint64 {
	s := splitmix(base ^ splitmix(uint64(worker)+1) ^ splitmix(uint64(batch)<<20+salt))
	if s == 0 {
		s = 1
	}
	return s
}

func nontrivial(prop string, res *Result) bool {
	c := res.Counters
	rows := 0
	for _, m := range res.Media {
		rows += len(m.Rows)
	}
	faults := c["fault.crash.with-requests-in-flight"] + c["fault.write.fail"] + c["fault.write.ambiguous"] + c["fault.cancel.at-yield"] +
		c["fault.cancel.queued-in-locker"] + c["fault.cancel.blocked-in-engine"]
	for k, v := range c {
		if strings.HasPrefix(k, "fault.read.") {
			faults += v
		}
	}
	switch prop {
	case "C02":
		return c["probe.same-source-in-flight-together"] > 0
	case "C05":
		return rows >= 2 && (res.Preempts > 0 || len(res.Gens) > 1)
	case "C06":
		return rows >= 1 && (faults > 0 || c["probe.batch-multi"] > 0 || res.Preempts > 0)
	case "C07":
		return c["probe.same-ik-in-flight-together"] > 0 || c["probe.ik-hit-from-store"] > 0
	case "C08":
		return c["probe.same-text-twice"] > 0
	case "C10":
		return c["probe.revert-committed"] > 0 || c["probe.same-revert-target-in-flight-together"] > 0
	case "C11":
		return c["probe.same-reference-twice"] > 0
	case "C13":
		return c["probe.audit-types"] >= 2
	case "C14":
		return c["probe.preview-answered"] > 0
	case "C16":
		return len(res.Events) > 0
	}
	return rows > 0
}

func sampleOf(in *Input, res *Result) any {
	var ops []string
	for _, o := range res.Ops {
		if o.Prelude {
			continue
		}
		st := "unanswered"
		if o.Returned {
			st = o.outcome()
		}
		ops = append(ops, fmt.Sprintf("%s [%d..%d] %s => %s", o.Name, o.InvokeStep, o.ReturnStep, o.Op.Summary(), st))
	}
	var rows []string
	for _, m := range res.Media {
		for i, r := range m.Rows {
			rows = append(rows, fmt.Sprintf("%s#%d %s gen=%d step=%d", m.Name, i, r.Type, r.Gen, r.Step))
		}
	}
	return map[string]any{"profile": in.Profile, "cfg": in.Cfg, "faults": in.Faults, "store_faults": in.SFaults, "choices": in.Choices,
		"ops": ops, "log": rows, "steps": res.Steps, "preemptions": res.Preempts, "generations": len(res.Gens), "trace_digest": res.Digest[:16]}
}

func TestSim(t *testing.T) {
	loadFineSites(*fFine)
	if *fMode == "digest" || *fDigest {
		// determinism self-test: a run that never ends (see runEngine) ends the process with a
		// status of its own instead of keeping the driver waiting
		go func() {
			last, since := int64(-1), time.Now()
			for {
				time.Sleep(time.Second)
				if p := runProgress.Load(); p != last {
					last, since = p, time.Now()
				} else if time.Since(since) > 20*time.Second {
					fmt.Println("HUNG: a simulated run made no progress for 20 s")
					os.Exit(3)
				}
			}
		}()
	}
	switch *fMode {
	case "":
		t.Skip("driven by /verif/check")
	case "batch":
		runBatch(t)
	case "replay":
		runReplay(t)
	case "digest":
		runDigest(t)
	case "sweep":
		runSweep(t)
	case "diff":
		runDiff(t)
	case "locker":
		runLockerBatch(t)
	default:
		fmt.Fprintf(os.Stderr, "unknown mode %q\n", *fMode)
		os.Exit(2)
	}
}

func writeJSON(path string, v any) {
	b, err := json.MarshalIndent(v, "", " ")
	if err != nil {
		fmt.Fprintf(os.Stderr, "marshal: %v\n", err)
		os.Exit(2)
	}
	if err := os.WriteFile(path, b, 0o644); err != nil {
		fmt.Fprintf(os.Stderr, "write %s: %v\n", path, err)
		os.Exit(2)
	}
}

func harnessExit(out *WorkerOut, msg string, in any) {
	out.HarnessErr = msg
	if *fReplays != "" && in != nil {
		p := fmt.Sprintf("%s/harness-%s-w%d-%d.json", *fReplays, *fProp, *fWorker, time.Now().UnixNano())
		writeJSON(p, map[string]any{"error": msg, "input": in})
		out.Replay = p
	}
	if *fOut != "" {
		writeJSON(*fOut, out)
	}
	fmt.Fprintf(os.Stderr, "HARNESS: %s\n", msg)
	os.Exit(2)
}

func applyMask(p Profile, known []KnownFinding, prop string) Profile {
	for _, k := range known {
		if k.Property != prop {
			continue
		}
		p.MaskSites = append(p.MaskSites, k.MaskSites...)
		p.DropKinds = append(p.DropKinds, k.MaskKinds...)
	}
	return p
}

func ledgerEngine(prop string, known []KnownFinding) *engine {
	var profs []Profile
	for _, n := range strings.Split(*fProfiles, ",") {
		p, ok := profiles[strings.TrimSpace(n)]
		if !ok {
			fmt.Fprintf(os.Stderr, "unknown profile %q\n", n)
			os.Exit(2)
		}
		if *fMask {
			p = applyMask(p, known, prop)
		}
		if *fBig {
			p.MaxClients++
			p.MaxOps *= 2
			p.MaxGens++
		}
		profs = append(profs, p)
	}
	return &engine{
		name: "ledger-sim",
		gen:  func(rt *rapid.T, batch int) any { return GenInput(rt, &profs[batch%len(profs)]) },
		run: func(t *testing.T, in any, keep bool) *Result {
			return runLedger(t, in.(*Input), prop, keep)
		},
		nontrivial: func(res *Result) bool { return nontrivial(prop, res) },
		sample:     func(in any, res *Result) any { return sampleOf(in.(*Input), res) },
		profName:   func(batch int) string { return profs[batch%len(profs)].Name },
		fill:       func(rf *ReplayFile, in any) { rf.Input = in.(*Input) },
		shrink: func(t *testing.T, in any, sig string) (any, int) {
			return shrinkInput(in.(*Input), func(c *Input) bool { return hasSig(Run(t, c, prop, false), sig) },
				func(c *Input) []int { r := Run(t, c, prop, false); defer r.Release(); return r.Decisions }, 25*time.Second)
		},
	}
}

func runLedger(t *testing.T, in *Input, prop string, keep bool) *Result {
	res := Run(t, in, prop, keep)
	if prop == "C14" {
		judgePreviewTxIDs(t, in, res)
	}
	return res
}

// judgePreviewTxIDs: in a concurrent run for C14, a broken id sequence (what the engine hands
// the store no longer continues the persisted ids) is attributed to the previews only if
// some preview ran and the same input with every preview removed shows no such break:
// "every later sequence of requests behaves exactly as if the preview had never been made".
func judgePreviewTxIDs(t *testing.T, in *Input, res *Result) {
	var broken *Violation
	for i := range res.Violations {
		if res.Violations[i].Prop == "C14x" {
			broken = &res.Violations[i]
		}
	}
	if broken == nil {
		return
	}
	previews := 0
	for _, o := range res.Ops {
		if o.Op.DryRun {
			previews++
		}
	}
	if previews == 0 {
		return
	}
	without := cloneInput(in)
	for gi := range without.Gens {
		for ci := range without.Gens[gi].Clients {
			var keep []Op
			for _, o := range without.Gens[gi].Clients[ci] {
				if !o.DryRun {
					keep = append(keep, o)
				}
			}
			without.Gens[gi].Clients[ci] = keep
		}
	}
	ref := Run(t, without, "C14", false)
	for _, v := range ref.Violations {
		if v.Prop == "C14x" {
			return // broken without any preview as well: not the previews' doing (C05's business)
		}
	}
	if ref.HarnessErr != "" {
		return
	}
	class := "preview-disturbs-ids"
	if !strings.HasPrefix(broken.Class, "handed-") {
		class = "preview-changes-outcome-of-real-writes"
	}
	res.Violations = append(res.Violations, Violation{Prop: "C14", Class: class, Step: broken.Step, Features: []string{broken.Class},
		Detail: "with previews running concurrently: " + broken.Detail + "; the same requests and schedule without the previews show no such break"})
}

func lockerEngine() *engine {
	return &engine{
		name: "locker-sim",
		gen:  func(rt *rapid.T, batch int) any { return GenLockerIn(rt) },
		run: func(t *testing.T, in any, keep bool) *Result {
			return RunLocker(t, in.(*LockerIn), keep)
		},
		nontrivial: func(res *Result) bool { return res.Counters["probe.lock-queued"] > 0 },
		sample: func(in any, res *Result) any {
			return map[string]any{"input": in, "steps": res.Steps, "preemptions": res.Preempts, "counters": res.Counters, "trace_digest": res.Digest[:16]}
		},
		profName: func(int) string { return "locker" },
		fill:     func(rf *ReplayFile, in any) { rf.Locker = in.(*LockerIn) },
		shrink: func(t *testing.T, in any, sig string) (any, int) {
			return shrinkLockerIn(in.(*LockerIn), func(c *LockerIn) bool { return hasSig(RunLocker(t, c, false), sig) },
				func(c *LockerIn) []int { return RunLocker(t, c, false).Decisions }, 15*time.Second)
		},
	}
}

func diffEngine() *engine {
	return &engine{
		name: "diff-sim",
		gen:  func(rt *rapid.T, batch int) any { return GenDiffIn(rt) },
		run: func(t *testing.T, in any, keep bool) *Result {
			return RunDiff(t, in.(*DiffIn), keep)
		},
		nontrivial: func(res *Result) bool { return res.Counters["probe.preview-answered"] > 0 },
		sample: func(in any, res *Result) any {
			d := in.(*DiffIn)
			var ops []string
			for _, g := range d.Plus.Gens {
				for _, o := range g.Clients[0] {
					ops = append(ops, o.Tag+": "+o.Summary())
				}
			}
			return map[string]any{"history_with_previews": ops, "faults": d.Plus.Faults, "store_faults": d.Plus.SFaults, "steps_both_runs": res.Steps, "trace_digest": res.Digest[:16]}
		},
		profName: func(int) string { return "preview-diff" },
		fill:     func(rf *ReplayFile, in any) { rf.Diff = in.(*DiffIn) },
		shrink: func(t *testing.T, in any, sig string) (any, int) {
			out, n := shrinkInput(in.(*DiffIn).Plus, func(c *Input) bool { return hasSig(RunDiff(t, &DiffIn{Plus: c}, false), sig) }, nil, 25*time.Second)
			return &DiffIn{Plus: out}, n
		},
	}
}

func runDiff(t *testing.T) {
	// the differential engine and, every other batch, the concurrent invariant form
	if *fWorker%2 == 1 {
		*fProfiles = "preview"
		runEngine(t, ledgerEngine(*fProp, loadKnown(*fKnown)))
		return
	}
	runEngine(t, diffEngine())
}

func runBatch(t *testing.T)       { runEngine(t, ledgerEngine(*fProp, loadKnown(*fKnown))) }
func runLockerBatch(t *testing.T) { runEngine(t, lockerEngine()) }

func runEngine(t *testing.T, eng *engine) {
	prop := *fProp
	known := loadKnown(*fKnown)
	if *fDigest {
		engineDigest(t, eng)
		return
	}
	out := &WorkerOut{Property: prop, Worker: *fWorker, Seed: *fSeed, Counters: map[string]int{}, PerProfile: map[string]int{}, Known: map[string]int{}, KnownReplay: map[string]string{}}
	hashes := map[string]struct{}{}
	states := map[string]struct{}{}
	start := time.Now()
	deadline := start.Add(*fBudget)
	_ = flag.Set("rapid.nofailfile", "true")
	_ = flag.Set("rapid.checks", "100")
	_ = flag.Set("rapid.shrinktime", "8s")
	var freshRes *Result
	if *fFresh {
		// Fresh mode: this process makes exactly one simulated run and never executes the engine a
		// second time (no re-check, no shrinking, the replay file is written from the run itself):
		// package-level state of the code under test then starts from scratch in every run, as it
		// does in the fresh process that confirms a violation.
		_ = flag.Set("rapid.checks", "1")
		*fMaxRuns = 1
	}

	batch := *fBatch
	var fail struct {
		in   any
		v    Violation
		seed uint64
	}
	shrinkSig := ""
	{
		// A run hangs when a task parks at a scheduling point while it holds a mutex the next task
		// blocks on: synctest.Wait cannot see through a sync.Mutex. The unchanged engine never does
		// that at a hand-placed point (its one such mutex has a hook), but a statement-level point of
		// the fine-grained mode may sit in a callback that a library invokes under its own mutex, and
		// a changed engine may hold a mutex across a store call. Such a run says nothing about the
		// property: the worker writes what it has and ends, the driver starts a fresh one on the next
		// batch. Hangs of the fine-grained binary are expected and only counted; hangs of the plain
		// binary make the driver end with harness trouble unless a violation is reported anyway.
		key := "base.hung-run-abandoned"
		if len(fineSiteList) > 0 {
			key = "fine.hung-run-abandoned"
		}
		go func() {
			last, since := int64(-1), time.Now()
			for {
				time.Sleep(time.Second)
				if p := runProgress.Load(); p != last {
					last, since = p, time.Now()
				} else if time.Since(since) > 20*time.Second {
					out.Counters[key]++
					out.NextBatch = batch + 1
					out.WallS = time.Since(start).Seconds()
					if *fOut != "" {
						writeJSON(*fOut, out)
					}
					os.Exit(0)
				}
			}
		}()
	}
search:
	for time.Now().Before(deadline) && out.Runs < *fMaxRuns && fail.in == nil {
		// Goroutines left behind by simulated process deaths (DESIGN 2.2) pin the memory of their
		// run: the worker ends when its heap has grown and the driver starts a fresh one.
		var ms runtime.MemStats
		runtime.ReadMemStats(&ms)
		if ms.HeapInuse > 400<<20 {
			out.Counters["worker.recycled-for-memory"]++
			break
		}
		rseed := deriveSeed(*fSeed, *fWorker, batch, 0)
		_ = flag.Set("rapid.seed", fmt.Sprint(rseed))
		tb := &recTB{}
		shrinkSig = ""
		b := batch
		rapid.Check(tb, func(rt *rapid.T) {
			in := eng.gen(rt, b)
			if shrinkSig == "" && time.Now().After(deadline) {
				return // budget used up in the middle of a batch: let the batch end at once
			}
			res := eng.run(t, in, *fFresh)
			if res.HarnessErr != "" {
				harnessExit(out, res.HarnessErr, in)
			}
			if res.Abandoned != "" {
				if shrinkSig == "" {
					out.Counters["run.abandoned-stall-after-restart"]++
				}
				res.Release()
				return
			}
			if shrinkSig == "" {
				out.Runs++
				out.PerProfile[eng.profName(b)]++
				out.Steps += int64(res.Steps)
				out.Preempts += int64(res.Preempts)
				out.SimTimeUs += res.SimTime.Microseconds()
				for k, v := range res.Counters {
					out.Counters[k] += v
				}
				if res.StateHash != "" {
					states[res.StateHash] = struct{}{}
				}
				if eng.nontrivial(res) {
					out.Nontrivial++
					hashes[res.Digest[:16]] = struct{}{}
					if len(out.Samples) < 3 {
						out.Samples = append(out.Samples, eng.sample(in, res))
					}
				}
				// continuous determinism re-check on a sample of runs
				if out.Runs%64 == 1 && !*fFresh {
					again := eng.run(t, in, true)
					defer again.Release()
					out.DetChecks++
					if again.Digest != res.Digest {
						// reported by the driver: exit 2 unless an exactly reproducible violation is found
						out.DetMismatch++
						if *fReplays != "" && out.DetMismatch <= 3 {
							a, b := eng.run(t, in, true), eng.run(t, in, true)
							writeJSON(fmt.Sprintf("%s/nondet-%s-w%d-%d.json", *fReplays, prop, *fWorker, out.Runs),
								map[string]any{"input": in, "digest_first": res.Digest, "digest_second": again.Digest, "trace_second": again.Lines, "trace_a": a.Lines, "trace_b": b.Lines, "digest_a": a.Digest, "digest_b": b.Digest})
							a.Release()
							b.Release()
						}
					}
				}
			} else {
				out.ShrinkRuns++
			}
			for _, v := range res.Violations {
				if v.Prop != prop {
					continue
				}
				if k := matchKnown(known, v); k != nil {
					if shrinkSig == "" {
						key := v.Sig()
						out.Known[key]++
						if _, ok := out.KnownReplay[key]; !ok && *fReplays != "" {
							out.KnownReplay[key] = writeReplay(t, eng, in, v, rseed, true)
						}
					}
					continue
				}
				if shrinkSig == "" {
					shrinkSig = v.Sig()
				}
				if v.Sig() == shrinkSig {
					fail.in, fail.v, fail.seed = in, v, rseed
					if *fFresh {
						freshRes = res // rapid must not run the property again: the case "passes"
						return
					}
					res.Release()
					rt.Fatalf("%s", v.Sig())
				}
			}
			res.Release()
		})
		if *fFresh {
			// nothing: a violation was recorded without failing the rapid case
		} else if !tb.failed {
			fail.in = nil
		} else if fail.in == nil {
			harnessExit(out, "rapid reported a failure that is not a property violation: "+strings.Join(tb.msgs, " | "), nil)
		}
		batch++
	}
	if fail.in != nil && *fFresh {
		// fresh mode: the replay file is written from the run itself, nothing is executed again
		path := writeReplayFrom(eng, fail.in, fail.v, fail.seed, freshRes)
		if freshProcessReproduces(path) {
			v := fail.v
			out.Violation = &v
			out.Replay = path
		} else {
			_ = os.Remove(path)
			out.Counters["violation.dropped-not-reproducible-in-a-fresh-process"]++
			out.Unreproducible = fail.v.Prop + "/" + fail.v.Class + ": " + fail.v.Detail
			fail.in = nil
		}
		batch++
	} else if fail.in != nil {
		// A violation counts only if a fresh process reproduces it from the replay file alone:
		// code under test that keeps state in package-level variables (a recycled buffer, a shared
		// decoding target) makes a run depend on the runs this process made before it. The
		// minimised input is tried first, then the input as found; if neither reproduces, the
		// failure is dropped (counted) and the search goes on.
		orig := fail.in
		if eng.shrink != nil {
			small, n := eng.shrink(t, fail.in, fail.v.Sig())
			out.ShrinkRuns += n
			fail.in = small
		}
		confirmed := false
		for _, cand := range []any{fail.in, orig} {
			path := writeReplay(t, eng, cand, fail.v, fail.seed, false)
			if freshProcessReproduces(path) {
				v := fail.v
				out.Violation = &v
				out.Replay = path
				confirmed = true
				break
			}
			_ = os.Remove(path)
			if eng.shrink == nil {
				break
			}
		}
		if !confirmed {
			out.Counters["violation.dropped-not-reproducible-in-a-fresh-process"]++
			if out.Unreproducible == "" {
				out.Unreproducible = fail.v.Prop + "/" + fail.v.Class + ": " + fail.v.Detail
			}
			fail.in = nil
			batch++
			if time.Now().Before(deadline) && out.Runs < *fMaxRuns {
				goto search
			}
		}
	}
	out.NextBatch = batch
	out.WallS = time.Since(start).Seconds()
	out.StateHashes = len(states)
	out.Goroutines = runtime.NumGoroutine()
	if *fOut != "" {
		writeJSON(*fOut, out)
		hs := make([]string, 0, len(hashes))
		for h := range hashes {
			hs = append(hs, h)
		}
		sort.Strings(hs)
		_ = os.WriteFile(*fOut+".hashes", []byte(strings.Join(hs, "\n")), 0o644)
		ss := make([]string, 0, len(states))
		for h := range states {
			ss = append(ss, h)
		}
		sort.Strings(ss)
		_ = os.WriteFile(*fOut+".states", []byte(strings.Join(ss, "\n")), 0o644)
	}
	if fail.in != nil {
		fmt.Printf("FOUND property=%s class=%s replay=%s\n", fail.v.Prop, fail.v.Class, out.Replay)
	}
}

// freshProcessReproduces replays a file in a new OS process of this very binary (exit status 1
// of the replay mode = same violation class, same event-log digest).
func freshProcessReproduces(path string) bool {
	args := []string{"-test.run", "TestSim", "-sim.mode=replay", "-sim.file=" + path}
	if *fFine != "" {
		args = append(args, "-sim.finesites="+*fFine)
	}
	cmd := exec.Command(os.Args[0], args...)
	cmd.Env = append(os.Environ(), "GOMAXPROCS=1")
	done := make(chan error, 1)
	if err := cmd.Start(); err != nil {
		return false
	}
	go func() { done <- cmd.Wait() }()
	limit := time.After(120 * time.Second)
	for {
		select {
		case err := <-done:
			if ee, ok := err.(*exec.ExitError); ok {
				return ee.ExitCode() == 1
			}
			return false
		case <-time.After(5 * time.Second):
			runProgress.Add(1) // the progress watch must not take this wait for a hung run
		case <-limit:
			_ = cmd.Process.Kill()
			return false
		}
	}
}

// engineDigest prints one digest line per seed (cross-process determinism self-test).
func engineDigest(t *testing.T, eng *engine) {
	_ = flag.Set("rapid.nofailfile", "true")
	_ = flag.Set("rapid.checks", "1")
	for i := 0; i < *fN; i++ {
		rseed := deriveSeed(*fSeed, 0, i, 7)
		_ = flag.Set("rapid.seed", fmt.Sprint(rseed))
		tb := &recTB{}
		i := i
		rapid.Check(tb, func(rt *rapid.T) {
			in := eng.gen(rt, i)
			res := eng.run(t, in, *fDump)
			fmt.Printf("%d %s %s steps=%d err=%q\n", i, eng.profName(i), res.Digest, res.Steps, res.HarnessErr)
			for _, l := range res.Lines {
				fmt.Printf("  | %s\n", l)
			}
		})
	}
}

func writeReplay(t *testing.T, eng *engine, in any, v Violation, rseed uint64, knownFinding bool) string {
	res := eng.run(t, in, true)
	return writeReplayOf(eng, in, v, rseed, knownFinding, res)
}

// writeReplayFrom writes the replay file of a run that has already been made (fresh mode).
func writeReplayFrom(eng *engine, in any, v Violation, rseed uint64, res *Result) string {
	return writeReplayOf(eng, in, v, rseed, false, res)
}

func writeReplayOf(eng *engine, in any, v Violation, rseed uint64, knownFinding bool, res *Result) string {
	rf := &ReplayFile{Property: v.Prop, Class: v.Class, Detail: v.Detail, Features: v.Features, Seed: *fSeed, RapidSeed: rseed,
		Engine: eng.name, Tool: "verifsim/synctest go1.26.8 rapid v1.3.0", Digest: res.Digest, Trace: res.Lines}
	if len(fineSiteList) > 0 {
		rf.Binary = "fine"
	}
	eng.fill(rf, in)
	for _, x := range res.Violations {
		if x.Prop == v.Prop && x.Class == v.Class {
			rf.Detail = x.Detail
			rf.Features = x.Features
		}
	}
	dir := *fReplays
	if dir == "" {
		dir = "."
	}
	pre := ""
	if knownFinding {
		pre = "known-"
	}
	path := fmt.Sprintf("%s/%s%s-%s-%d-%s.json", dir, pre, v.Prop, v.Class, *fSeed, res.Digest[:10])
	writeJSON(path, rf)
	return path
}

// runReplay executes a replay file and reports whether the recorded violation
// re-occurs with the same event-log digest.
func runReplay(t *testing.T) {
	b, err := os.ReadFile(*fFile)
	if err != nil {
		fmt.Fprintf(os.Stderr, "read %s: %v\n", *fFile, err)
		os.Exit(2)
	}
	var rf ReplayFile
	if err := json.Unmarshal(b, &rf); err != nil {
		fmt.Fprintf(os.Stderr, "parse %s: %v\n", *fFile, err)
		os.Exit(2)
	}
	if rf.Engine == "locker-sim" {
		finishReplay(&rf, RunLocker(t, rf.Locker, true), nil)
		return
	}
	if rf.Engine == "diff-sim" {
		finishReplay(&rf, RunDiff(t, rf.Diff, true), nil)
		return
	}
	res := runLedger(t, rf.Input, rf.Property, true)
	finishReplay(&rf, res, res.Media)
}

func finishReplay(rf *ReplayFile, res *Result, media []*Medium) {
	for _, l := range res.Lines {
		fmt.Println(l)
	}
	if res.HarnessErr != "" {
		fmt.Printf("HARNESS: %s\n", res.HarnessErr)
		os.Exit(2)
	}
	for _, m := range media {
		for i, r := range m.Rows {
			fmt.Printf("log %s[%d] id=%s %s gen=%d step=%d ik=%q data=%s\n", m.Name, i, r.ID, r.Type, r.Gen, r.Step, r.IK, r.Data)
		}
	}
	fmt.Printf("counters: %v\n", res.Counters)
	reproduced := false
	for _, v := range res.Violations {
		fmt.Printf("violation %s: %s\n", v.Sig(), v.Detail)
		if v.Prop == rf.Property && v.Class == rf.Class {
			reproduced = true
		}
	}
	fmt.Printf("digest=%s expected=%s\n", res.Digest, rf.Digest)
	switch {
	case reproduced && res.Digest == rf.Digest:
		fmt.Printf("REPRODUCED property=%s class=%s\n", rf.Property, rf.Class)
		os.Exit(1)
	case reproduced:
		fmt.Printf("REPRODUCED-DIFFERENT-TRACE property=%s class=%s\n", rf.Property, rf.Class)
		os.Exit(3)
	default:
		fmt.Printf("NOT-REPRODUCED property=%s class=%s\n", rf.Property, rf.Class)
		os.Exit(0)
	}
}

// runDigest prints one line per seed: the event-log digest of the run drawn
// from that seed. Used by the cross-process determinism self-test.
func runDigest(t *testing.T) {
	var profs []Profile
	for _, n := range strings.Split(*fProfiles, ",") {
		p, ok := profiles[strings.TrimSpace(n)]
		if !ok {
			fmt.Fprintf(os.Stderr, "unknown profile %q\n", n)
			os.Exit(2)
		}
		profs = append(profs, p)
	}
	_ = flag.Set("rapid.nofailfile", "true")
	_ = flag.Set("rapid.checks", "1")
	for i := 0; i < *fN; i++ {
		prof := profs[i%len(profs)]
		rseed := deriveSeed(*fSeed, 0, i, 7)
		_ = flag.Set("rapid.seed", fmt.Sprint(rseed))
		tb := &recTB{}
		rapid.Check(tb, func(rt *rapid.T) {
			in := GenInput(rt, &prof)
			if *fOnly >= 0 && i != *fOnly {
				return
			}
			res := Run(t, in, "none", *fDump)
			fmt.Printf("%d %s %s steps=%d err=%q\n", i, prof.Name, res.Digest, res.Steps, res.HarnessErr)
			if *fDump {
				b, _ := json.Marshal(in)
				fmt.Printf("  input %s\n", b)
				for _, l := range res.Lines {
					fmt.Printf("  | %s\n", l)
				}
			}
		})
	}
}
