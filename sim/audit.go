package verifsim

import (
	"bytes"
	"context"
	"encoding/json"
	"fmt"
	"math/big"
	"reflect"

	ledger "github.com/formancehq/ledger/internal"
	"github.com/formancehq/ledger/internal/machine"
	"github.com/formancehq/ledger/internal/machine/script/compiler"
	"github.com/formancehq/ledger/internal/machine/vm"
	"github.com/formancehq/stack/libs/go-libs/metadata"
)

// ---------------------------------------------------------------------------
// C13 audit: every stored row is read back through the repository's decoder
// and compared with the entry the engine handed to InsertLogs.
// ---------------------------------------------------------------------------

func (s *Sim) auditLedger(li int, when string) {
	m := s.media[li]
	for idx, r := range m.Rows {
		var prevCL *ledger.ChainedLog
		if idx > 0 {
			p := m.Rows[idx-1]
			prevCL = &ledger.ChainedLog{ID: new(big.Int).Set(p.ID), Hash: p.Hash}
		}
		feat := []string{"type=" + r.Type}
		cl, err := decodeRow(m.Name, r)
		if err != nil {
			s.violate("C13", "stored-entry-unreadable", fmt.Sprintf("%s (%s): entry %d of type %s cannot be read back from its stored form: %v", m.Name, when, idx, r.Type, err), feat...)
			continue
		}
		if r.Orig == nil {
			continue
		}
		if d := chainedLogDiff(r.Orig, cl); d != "" {
			s.violate("C13", "round-trip-changes-entry", fmt.Sprintf("%s (%s): entry %d (%s) read back from its stored form differs from what was written: %s", m.Name, when, idx, r.Type, d), feat...)
		}
		// "recomputing its hash from the round-tripped content and the previous hash yields the
		// stored hash": the previous hash is the actual predecessor's stored hash. (If the written
		// content does not reproduce it either, the entry was hashed over something else than what
		// was stored, or chained onto something else than its predecessor -- C05 reports the
		// latter too; both statements are then violated.)
		lg := cl.Log
		re := lg.ChainLog(prevCL)
		ol := r.Orig.Log
		want := ol.ChainLog(prevCL)
		if !bytes.Equal(re.Hash, r.Hash) {
			f := append([]string{}, feat...)
			if bytes.Equal(want.Hash, r.Hash) {
				f = append(f, "round-trip-changed-the-hashed-content")
			} else {
				f = append(f, "written-content-does-not-reproduce-it-either")
			}
			a, _ := json.Marshal(r.Orig.Log)
			b, _ := json.Marshal(lg)
			s.violate("C13", "hash-not-reproducible", fmt.Sprintf("%s (%s): entry %d (%s): recomputing the hash from the round-tripped content and the previous hash does not give the stored hash; written form %s, read-back form %s", m.Name, when, idx, r.Type, a, b), f...)
		}
		// the JSON form served by the API / export: Marshal then ChainedLog.UnmarshalJSON
		func() {
			defer func() {
				if e := recover(); e != nil {
					s.violate("C13", "json-round-trip-panics", fmt.Sprintf("%s (%s): entry %d (%s): json round trip of the chained log panics: %v", m.Name, when, idx, r.Type, e), feat...)
				}
			}()
			raw, err := json.Marshal(r.Orig)
			if err != nil {
				s.violate("C13", "json-round-trip-fails", fmt.Sprintf("%s (%s): entry %d (%s): %v", m.Name, when, idx, r.Type, err), feat...)
				return
			}
			var back ledger.ChainedLog
			if err := json.Unmarshal(raw, &back); err != nil {
				s.violate("C13", "json-round-trip-fails", fmt.Sprintf("%s (%s): entry %d (%s): %v", m.Name, when, idx, r.Type, err), feat...)
				return
			}
			if d := chainedLogDiff(r.Orig, &back); d != "" {
				s.violate("C13", "json-round-trip-changes-entry", fmt.Sprintf("%s (%s): entry %d (%s): %s", m.Name, when, idx, r.Type, d), feat...)
			}
			bl := back.Log
			if !bytes.Equal(bl.ChainLog(prevCL).Hash, r.Hash) {
				s.violate("C13", "hash-not-reproducible", fmt.Sprintf("%s (%s): entry %d (%s): hash recomputed from the JSON round trip differs from the stored hash", m.Name, when, idx, r.Type), append(feat, "json")...)
			}
		}()
	}
}

func idString(v any) string {
	switch x := v.(type) {
	case *big.Int:
		if x == nil {
			return "<nil>"
		}
		return x.String()
	case big.Int:
		return x.String()
	case float64:
		return new(big.Float).SetFloat64(x).Text('f', 0)
	case json.Number:
		return x.String()
	default:
		return fmt.Sprint(v)
	}
}

func mdEqual(a, b metadata.Metadata) bool {
	return metaEqual(map[string]string(a), map[string]string(b))
}

func deref(v any) any {
	rv := reflect.ValueOf(v)
	if rv.Kind() == reflect.Ptr && !rv.IsNil() {
		return rv.Elem().Interface()
	}
	return v
}

// chainedLogDiff compares two entries semantically: same type, instant,
// idempotency key, id, hash, and payload field by field (amounts and ids as
// integers, metadata as maps with nil == empty).
func chainedLogDiff(a, b *ledger.ChainedLog) string {
	if a.Type != b.Type {
		return fmt.Sprintf("type %s vs %s", a.Type, b.Type)
	}
	if !a.Date.Equal(b.Date) {
		return fmt.Sprintf("date %s vs %s", a.Date.Format(ledger.DateFormat), b.Date.Format(ledger.DateFormat))
	}
	if a.IdempotencyKey != b.IdempotencyKey {
		return fmt.Sprintf("idempotency key %q vs %q", a.IdempotencyKey, b.IdempotencyKey)
	}
	if !bigEq(a.ID, b.ID) {
		return fmt.Sprintf("id %v vs %v", a.ID, b.ID)
	}
	if !bytes.Equal(a.Hash, b.Hash) {
		return "hash differs"
	}
	ad, bd := deref(a.Data), deref(b.Data)
	switch x := ad.(type) {
	case ledger.NewTransactionLogPayload:
		y, ok := bd.(ledger.NewTransactionLogPayload)
		if !ok {
			return fmt.Sprintf("payload type %T vs %T", ad, bd)
		}
		if d := txDiff(x.Transaction, y.Transaction); d != "" {
			return "transaction: " + d
		}
		if x.Transaction != nil && y.Transaction != nil && x.Transaction.Reverted != y.Transaction.Reverted {
			return "reverted flag differs"
		}
		xa, ya := map[string]map[string]string{}, map[string]map[string]string{}
		for k, v := range x.AccountMetadata {
			xa[k] = v
		}
		for k, v := range y.AccountMetadata {
			ya[k] = v
		}
		if !acctMetaEqual(xa, ya) {
			return fmt.Sprintf("account metadata %v vs %v", xa, ya)
		}
	case ledger.RevertedTransactionLogPayload:
		y, ok := bd.(ledger.RevertedTransactionLogPayload)
		if !ok {
			return fmt.Sprintf("payload type %T vs %T", ad, bd)
		}
		if !bigEq(x.RevertedTransactionID, y.RevertedTransactionID) {
			return fmt.Sprintf("reverted transaction id %v vs %v", x.RevertedTransactionID, y.RevertedTransactionID)
		}
		if d := txDiff(x.RevertTransaction, y.RevertTransaction); d != "" {
			return "transaction: " + d
		}
	case ledger.SetMetadataLogPayload:
		y, ok := bd.(ledger.SetMetadataLogPayload)
		if !ok {
			return fmt.Sprintf("payload type %T vs %T", ad, bd)
		}
		if x.TargetType != y.TargetType {
			return fmt.Sprintf("target type %q vs %q", x.TargetType, y.TargetType)
		}
		if idString(x.TargetID) != idString(y.TargetID) {
			return fmt.Sprintf("target id %s vs %s", idString(x.TargetID), idString(y.TargetID))
		}
		if !mdEqual(x.Metadata, y.Metadata) {
			return fmt.Sprintf("metadata %v vs %v", x.Metadata, y.Metadata)
		}
	case ledger.DeleteMetadataLogPayload:
		y, ok := bd.(ledger.DeleteMetadataLogPayload)
		if !ok {
			return fmt.Sprintf("payload type %T vs %T", ad, bd)
		}
		if x.TargetType != y.TargetType {
			return fmt.Sprintf("target type %q vs %q", x.TargetType, y.TargetType)
		}
		if idString(x.TargetID) != idString(y.TargetID) {
			return fmt.Sprintf("target id %s vs %s", idString(x.TargetID), idString(y.TargetID))
		}
		if x.Key != y.Key {
			return fmt.Sprintf("key %q vs %q", x.Key, y.Key)
		}
	default:
		return fmt.Sprintf("unknown payload type %T", ad)
	}
	return ""
}

// ---------------------------------------------------------------------------
// Sequential reference = the same engine, run one at a time (DESIGN.md section
// 5): every committed transaction's request is re-executed with a freshly
// compiled program on the model state at its log position.
// ---------------------------------------------------------------------------

func (s *Sim) reexecute(li int, name string, c *chainState) {
	bal := map[string]*big.Int{}
	acctMeta := map[string]map[string]string{}
	ctx := context.Background()
	for _, e := range c.entries {
		if e.Type == "NEW_TRANSACTION" && e.Tx != nil {
			if o := s.opByMarker(e.Marker); o != nil && o.Script != nil && o.Ledger == li {
				s.reexecOne(ctx, name, e, o, bal, acctMeta)
			}
		}
		// fold
		switch e.Type {
		case "NEW_TRANSACTION", "REVERTED_TRANSACTION":
			if e.Tx != nil {
				applyPostings(bal, e.Tx.Postings)
			}
			for a, md := range e.AcctMeta {
				if acctMeta[a] == nil {
					acctMeta[a] = map[string]string{}
				}
				for k, v := range md {
					acctMeta[a][k] = v
				}
			}
		case "SET_METADATA":
			if e.TargetType == "ACCOUNT" {
				if acctMeta[e.TargetID] == nil {
					acctMeta[e.TargetID] = map[string]string{}
				}
				for k, v := range e.Meta {
					acctMeta[e.TargetID][k] = v
				}
			}
		case "DELETE_METADATA":
			if e.TargetType == "ACCOUNT" && acctMeta[e.TargetID] != nil {
				delete(acctMeta[e.TargetID], e.Key)
			}
		}
	}
	// refusals must be the same with and without the cache: a request refused at compile / variable /
	// resource time must also be refused by a fresh pipeline, and an accepted one accepted
	if s.wants("C08") {
		for _, o := range s.ledgerOps(li) {
			if o.Script == nil || !o.Returned || o.Script.Plain == "" {
				continue
			}
			fresh := s.freshPipelineFails(ctx, o)
			switch {
			case o.ErrClass == "tx:COMPILATION_FAILED" && !fresh && len(o.acctReads) == 0:
				s.violate("C08", "cache-rejects-valid-program", fmt.Sprintf("%s: request %s was refused (compilation failed) but a fresh compilation of the same text with the same variables is accepted", name, o.Name))
			case o.Err == nil && fresh:
				s.violate("C08", "cache-accepts-rejected-program", fmt.Sprintf("%s: request %s succeeded but a fresh compilation of its script (or its variables) is refused", name, o.Name))
			}
		}
	}
}

// freshPipelineFails: compile + variables + resource resolution on a fresh program.
func (s *Sim) freshPipelineFails(ctx context.Context, o *OpRecord) (failed bool) {
	defer func() {
		if r := recover(); r != nil {
			failed = true
		}
	}()
	prog, err := compiler.Compile(o.Script.Plain)
	if err != nil {
		return true
	}
	m := vm.NewMachine(*prog)
	if err := m.SetVarsFromJSON(cloneScript(o.Script).Vars); err != nil {
		return true
	}
	store := vm.StaticStore{}
	for a, md := range o.acctReads {
		acc := &vm.AccountWithBalances{Account: ledger.Account{Address: a, Metadata: metadata.Metadata{}}, Balances: map[string]*big.Int{}}
		for k, v := range md {
			acc.Metadata[k] = v
		}
		store[a] = acc
	}
	if _, _, err := m.ResolveResources(ctx, store); err != nil {
		return true
	}
	return false
}

func (s *Sim) reexecOne(ctx context.Context, name string, e *Entry, o *OpRecord, bal map[string]*big.Int, acctMeta map[string]map[string]string) {
	defer func() {
		if r := recover(); r != nil {
			s.count("reexec.panic")
			if s.sched.keepDebug {
				s.sched.lines = append(s.sched.lines, fmt.Sprintf("  reexec %s: panic: %v", o.Name, r))
			}
		}
	}()
	if o.Op.Kind == "script" && o.Op.Tpl == tplBalance && o.Op.Src != o.Op.Src2 {
		// balance() of an account that is not a source is only read-locked, and a
		// deposit needs no more than a read lock on its destination: the looked-up
		// amount may legitimately predate a concurrent deposit. The property's
		// criterion (the sources held enough for what was taken) is check (a).
		s.count("reexec.skipped-nonsource-balance")
		return
	}
	store := vm.StaticStore{}
	get := func(addr string) *vm.AccountWithBalances {
		a, ok := store[addr]
		if !ok {
			a = &vm.AccountWithBalances{Account: ledger.Account{Address: addr, Metadata: metadata.Metadata{}}, Balances: map[string]*big.Int{}}
			store[addr] = a
		}
		return a
	}
	for k, b := range bal {
		var addr, asset string
		for i := 0; i < len(k); i++ {
			if k[i] == 0 {
				addr, asset = k[:i], k[i+1:]
				break
			}
		}
		get(addr).Balances[asset] = new(big.Int).Set(b)
	}
	for a, md := range acctMeta {
		acc := get(a)
		for k, v := range md {
			acc.Metadata[k] = v
		}
	}
	// metadata lookups are pinned to what the original execution was given, so that only balances differ
	for a, md := range o.acctReads {
		acc := get(a)
		acc.Metadata = metadata.Metadata{}
		for k, v := range md {
			acc.Metadata[k] = v
		}
	}
	prog, err := compiler.Compile(o.Script.Plain)
	if err != nil {
		if s.wants("C08") {
			s.violate("C08", "cache-accepts-rejected-program", fmt.Sprintf("%s: entry %d: a fresh compilation of request %s's script fails: %v", name, e.Idx, o.Name, err))
		}
		return
	}
	m := vm.NewMachine(*prog)
	if err := m.SetVarsFromJSON(cloneScript(o.Script).Vars); err != nil {
		s.count("reexec.vars-error")
		if s.sched.keepDebug {
			s.sched.lines = append(s.sched.lines, fmt.Sprintf("  reexec %s: vars error: %v (vars=%v)", o.Name, err, o.Script.Vars))
		}
		return
	}
	if _, _, err := m.ResolveResources(ctx, store); err != nil {
		s.count("reexec.resources-error")
		return
	}
	if err := m.ResolveBalances(ctx, store); err != nil {
		s.count("reexec.balances-error")
		return
	}
	res, err := vm.Run(m, *o.Script)
	s.count("reexec.done")
	feat := []string{"kind=" + o.Op.Kind}
	if o.Op.Kind == "script" && o.Op.Tpl >= 0 && o.Op.Tpl < len(tplNames) {
		feat = append(feat, "tpl="+tplNames[o.Op.Tpl])
	}
	if err != nil {
		if machine.IsInsufficientFundError(err) {
			if s.wants("C02") {
				s.violate("C02", "unfunded-at-log-position", fmt.Sprintf("%s: entry %d (request %s): run alone at its position in the log the request fails with insufficient funds, yet it was accepted", name, e.Idx, o.Name), feat...)
			}
			return
		}
		s.count("reexec.other-error")
		return
	}
	same := postingsEqual(res.Postings, e.Tx.Postings)
	balanceIndependent := o.Op.Kind == "script" && (o.Op.Tpl == tplWorld || o.Op.Tpl == tplOverdraftUnbounded || o.Op.Tpl == tplSetAccountMeta ||
		o.Op.Tpl == tplArith || o.Op.Tpl == tplPortionVar || o.Op.Tpl == tplMetaVar || o.Op.Tpl == tplAssetVar)
	if o.Op.Kind == "postings" {
		balanceIndependent = true // posting mode: the postings are the request
	}
	if !same {
		if balanceIndependent {
			if s.wants("C08") {
				s.violate("C08", "cached-program-behaves-differently", fmt.Sprintf("%s: entry %d (request %s): committed postings %s, a fresh compilation of the same text run alone gives %s", name, e.Idx, o.Name, fmtPostings(e.Tx.Postings), fmtPostings(res.Postings)), feat...)
			}
		} else if s.wants("C02") {
			s.violate("C02", "postings-from-stale-balances", fmt.Sprintf("%s: entry %d (request %s): committed postings %s were computed from balances that never existed in log order; run alone at its position the request yields %s", name, e.Idx, o.Name, fmtPostings(e.Tx.Postings), fmtPostings(res.Postings)), feat...)
		}
		return
	}
	if s.wants("C08") {
		md := map[string]string(res.Metadata)
		if !metaEqual(md, e.Tx.Metadata) {
			s.violate("C08", "cached-program-behaves-differently", fmt.Sprintf("%s: entry %d (request %s): committed metadata %v, fresh compilation gives %v", name, e.Idx, o.Name, sortedMeta(e.Tx.Metadata), sortedMeta(md)), append(feat, "field=metadata")...)
		}
		am := map[string]map[string]string{}
		for k, v := range res.AccountMetadata {
			am[k] = v
		}
		if !acctMetaEqual(am, e.AcctMeta) {
			s.violate("C08", "cached-program-behaves-differently", fmt.Sprintf("%s: entry %d (request %s): committed account metadata %v, fresh compilation gives %v", name, e.Idx, o.Name, e.AcctMeta, am), append(feat, "field=accountMetadata")...)
		}
	}
}
