package verifsim

import (
	"context"
	"fmt"
	"runtime/debug"
	"sort"
	"strings"
	"sync"
	"testing"
	"testing/synctest"
	"time"

	"github.com/formancehq/ledger/internal/engine/command"
	"github.com/formancehq/ledger/internal/verifhook"
	"github.com/formancehq/stack/libs/go-libs/logging"
	"pgregory.net/rapid"
)

// ---------------------------------------------------------------------------
// C15: simulation of command.DefaultLocker alone (DESIGN.md section 6, C15).
// ---------------------------------------------------------------------------

type LockReq struct {
	Read          []int `json:"read,omitempty"`
	Write         []int `json:"write,omitempty"`
	Hold          int   `json:"hold,omitempty"`          // scheduling steps the lock is held
	CancelAtYield int   `json:"cancelAtYield,omitempty"` // cancel the request when its task parks for the k-th time inside it
}

type LockCancel struct {
	Step int `json:"step"` // at the first step >= Step ...
	Who  int `json:"who"`  // ... cancel the Who-th task that is blocked inside Lock (not parked)
}

type LockerIn struct {
	Accounts int          `json:"accounts"`
	Tasks    [][]LockReq  `json:"tasks"`
	Cancels  []LockCancel `json:"cancels,omitempty"`
	SitesOff []string     `json:"sitesOff,omitempty"`
	Choices  []int        `json:"choices,omitempty"`
	TailSeed uint64       `json:"tailSeed,omitempty"` // see Input.TailSeed
	TailPct  int          `json:"tailPct,omitempty"`
	// Ticks: the clock moves forward by Us microseconds when the scheduler reaches step Step (a
	// lock manager may use timers: polling, time-outs)
	Ticks    []ClockTick `json:"ticks,omitempty"`
	PCTSeed  uint64      `json:"pctSeed,omitempty"` // see Input.PCTSeed
	PCTDepth int         `json:"pctDepth,omitempty"`
	PCTSpan  int         `json:"pctSpan,omitempty"`
	// FineSites: statement-level scheduling points enabled in this run (fine-grained mode only).
	FineSites    []string `json:"fineSites,omitempty"`
	FineHeld     bool     `json:"fineHeld,omitempty"`     // see Config.FineHeld
	ClockCreepNs int64    `json:"clockCreepNs,omitempty"` // see Config.ClockCreepNs
}

type ClockTick struct {
	Step int   `json:"step"`
	Us   int64 `json:"us"`
}

type lockRec struct {
	task      int
	idx       int
	req       *LockReq
	name      string
	read      []string
	write     []string
	invoked   bool
	returned  bool
	err       error
	holding   bool // Lock returned successfully and unlock has not been called yet
	unlocking bool // unlock has been called and has not returned yet
	cancelled bool
	cancel    context.CancelFunc
	yields    int
	callStep  int
	retStep   int
	queueStep int // last step at which the scheduler released the task inside this request: when it queued
}

type lockerSim struct {
	vmu     sync.Mutex // violations may be recorded by two tasks running at the same time
	in      *LockerIn
	sched   *Sched
	recs    []*lockRec
	cur     map[*Task]*lockRec
	viols   []Violation
	counter map[string]int
	harness string
	cancels []LockCancel
}

func (l *lockerSim) violate(class, detail string, feats ...string) {
	l.vmu.Lock()
	defer l.vmu.Unlock()
	for _, v := range l.viols {
		if v.Class == class {
			return
		}
	}
	l.viols = append(l.viols, Violation{Prop: "C15", Class: class, Detail: detail, Step: l.sched.step, Features: feats})
}

var lockerOptionalSites = []string{"lock.enter", "lock.release"}

// RunLocker executes one locker simulation.
func RunLocker(t *testing.T, in *LockerIn, keepLog bool) *Result {
	off := map[string]bool{}
	for _, s := range in.SitesOff {
		if s == "lock.enter" || s == "lock.release" {
			off[s] = true
		}
	}
	l := &lockerSim{in: in, sched: newSched(in.Choices, off, 3000), cur: map[*Task]*lockRec{}, counter: map[string]int{}, cancels: append([]LockCancel(nil), in.Cancels...)}
	l.sched.tailSeed, l.sched.tailPct = in.TailSeed, in.TailPct
	l.sched.pctSeed, l.sched.pctDepth, l.sched.pctSpan = in.PCTSeed, in.PCTDepth, in.PCTSpan
	func() {
		defer func() {
			if e := recover(); e != nil {
				msg := fmt.Sprint(e)
				if strings.Contains(msg, "blocked goroutines remain") || strings.Contains(msg, "deadlock: main bubble goroutine has exited") {
					return
				}
				l.harness = "panic outside the simulated system: " + msg + "\n" + string(debug.Stack())
			}
		}()
		synctest.Test(t, func(t *testing.T) { l.root() })
	}()
	verifhook.Hook = nil
	verifhook.Dead = nil
	runProgress.Add(1)
	res := &Result{Violations: l.viols, Digest: l.sched.Digest(), Steps: l.sched.step, Preempts: l.sched.preempts, Counters: l.counter, HarnessErr: l.harness, Decisions: append([]int(nil), l.sched.made...)}
	if keepLog {
		res.Lines = l.sched.lines
	}
	return res
}

func lockAcct(i int) string { return fmt.Sprintf("acc%d", i) }

func (l *lockerSim) root() {
	base := logging.ContextWithLogger(context.Background(), noopLogger{})
	gen := &Generation{}
	locker := command.NewDefaultLocker()
	verifhook.Hook = func(ctx context.Context, point string) {
		if t := taskFrom(ctx); t != nil {
			l.sched.yieldTask(t, point, point == "lock.granted" || point == "lock.cancelled")
		}
	}
	verifhook.Dead = func(ctx context.Context) bool { return gen.dead.Load() }
	fineOn := map[string]bool{}
	for _, f := range l.in.FineSites {
		fineOn[f] = true
	}
	installFineHooks(l.sched, fineOn, l.in.FineHeld, func(k string) {
		l.sched.mu.Lock()
		l.counter[k]++
		l.sched.mu.Unlock()
	})
	defer uninstallFineHooks()
	fineAbandoned := false
	var tasks []*Task
	for ti, reqs := range l.in.Tasks {
		ti, reqs := ti, reqs
		tk := l.sched.spawn(base, gen, fmt.Sprintf("t%d", ti), func(ctx context.Context, t *Task) {
			for ri := range reqs {
				l.doRequest(ctx, t, locker, ti, ri, &reqs[ri])
				if gen.dead.Load() {
					return
				}
			}
		})
		tasks = append(tasks, tk)
	}
	allDone := func() bool {
		l.sched.mu.Lock()
		defer l.sched.mu.Unlock()
		for _, t := range tasks {
			if !t.finished {
				return false
			}
		}
		return true
	}
	ticks := append([]ClockTick(nil), l.in.Ticks...)
	idle := 0
	for {
		quiesce()
		if c := l.in.ClockCreepNs; c > 0 {
			simSleep(time.Duration(c))
			quiesce()
		}
		l.sched.step++
		if l.sched.step > l.sched.maxSteps {
			if len(l.in.FineSites) > 0 {
				l.counter["fine.step-cap"]++
				fineAbandoned = true
				break
			}
			l.harness = "step cap exceeded"
			break
		}
		l.checkExclusion()
		ps := l.sched.snapshotParked()
		l.checkNoNeedlessWait(ps, tasks)
		if len(l.viols) > 0 {
			break
		}
		for _, p := range ps {
			if !p.counted {
				p.counted = true
				if r := l.cur[p]; r != nil {
					r.yields++
				}
			}
		}
		// request-relative cancellation
		fired := false
		for _, p := range ps {
			if r := l.cur[p]; r != nil && r.req.CancelAtYield > 0 && !r.cancelled && r.invoked && !r.returned && r.yields >= r.req.CancelAtYield {
				r.cancelled = true
				r.cancel()
				l.counter["fault.cancel.at-yield"]++
				if p.point == "lock.cancelled" || p.point == "lock.granted" {
					l.counter["fault.cancel.at-"+p.point]++
				}
				l.sched.Logf("step %d: FAULT cancel %s at %s", l.sched.step, r.name, p.point)
				fired = true
				break
			}
		}
		if fired {
			continue
		}
		// step-triggered cancellation of a request blocked inside Lock
		if len(l.cancels) > 0 && l.sched.step >= l.cancels[0].Step {
			c := l.cancels[0]
			l.cancels = l.cancels[1:]
			parked := map[*Task]bool{}
			for _, p := range ps {
				parked[p] = true
			}
			var blocked []*lockRec
			for _, tk := range tasks {
				if r := l.cur[tk]; r != nil && !parked[tk] && r.invoked && !r.returned && !r.cancelled {
					blocked = append(blocked, r)
				}
			}
			if len(blocked) > 0 {
				r := blocked[mod(c.Who, len(blocked))]
				r.cancelled = true
				r.cancel()
				l.counter["fault.cancel.while-queued"]++
				l.sched.Logf("step %d: FAULT cancel %s while queued", l.sched.step, r.name)
				continue
			}
		}
		if len(ticks) > 0 && l.sched.step >= ticks[0].Step {
			d := time.Duration(ticks[0].Us) * time.Microsecond
			ticks = ticks[1:]
			l.sched.Logf("step %d: clock +%s", l.sched.step, d)
			l.counter["fault.clock-tick"]++
			simSleep(d)
			continue
		}
		if len(ps) == 0 {
			if allDone() {
				break
			}
			// discrete-event clock: before calling it a stall, let time pass (timers of the lock manager)
			if idle < len(idleSteps) {
				d := idleSteps[idle]
				idle++
				l.sched.Logf("step %d: idle, clock +%s", l.sched.step, d)
				l.counter["clock.advanced-while-idle"]++
				simSleep(d)
				continue
			}
			// nothing can run any more: every remaining request is blocked inside Lock although
			// every holder has released (holders release after a bounded number of steps)
			var stuck []string
			for _, tk := range tasks {
				if r := l.cur[tk]; r != nil && r.invoked && !r.returned {
					stuck = append(stuck, fmt.Sprintf("%s(R=%v W=%v cancelled=%v)", r.name, r.read, r.write, r.cancelled))
				}
			}
			sort.Strings(stuck)
			feat := "after-cancellation"
			if l.counter["fault.cancel.at-yield"]+l.counter["fault.cancel.while-queued"] == 0 {
				feat = "no-cancellation"
			}
			l.sched.Logf("step %d: STUCK %v", l.sched.step, stuck)
			l.violate("request-never-granted", "no holder is left, yet these requests are still waiting inside Lock: "+strings.Join(stuck, " "), feat)
			break
		}
		idle = 0
		p := l.sched.pick(ps)
		if r := l.cur[p]; r != nil && r.invoked && !r.returned {
			r.queueStep = l.sched.step
		}
		l.sched.Logf("step %d: run %s @%s", l.sched.step, p.Name, p.point)
		l.sched.last = p
		p.counted = false
		l.sched.release(p)
	}
	if len(l.viols) == 0 && l.harness == "" && !fineAbandoned {
		l.probe(base, gen, locker)
	}
	l.sched.mu.Lock()
	tp := l.sched.taskPanic
	l.sched.mu.Unlock()
	if tp != "" {
		l.violate("locker-panics", "the lock manager panicked: "+tp)
	}
	// end: free whatever is left
	gen.dead.Store(true)
	for _, p := range l.sched.snapshotParked() {
		l.sched.release(p)
	}
	for _, r := range l.recs {
		if r.cancel != nil {
			r.cancel()
		}
	}
	quiesce()
}

func (l *lockerSim) doRequest(ctx context.Context, t *Task, locker *command.DefaultLocker, ti, ri int, req *LockReq) {
	rec := &lockRec{task: ti, idx: ri, req: req, name: fmt.Sprintf("t%d.%d", ti, ri)}
	for _, a := range req.Read {
		rec.read = append(rec.read, lockAcct(mod(a, l.in.Accounts)))
	}
	for _, a := range req.Write {
		rec.write = append(rec.write, lockAcct(mod(a, l.in.Accounts)))
	}
	rctx, cancel := context.WithCancel(ctx)
	rec.cancel = cancel
	l.setCur(t, nil)
	l.sched.yieldTask(t, "lk.invoke", true)
	if t.Gen.dead.Load() {
		return
	}
	l.addRec(rec)
	l.setCur(t, rec)
	rec.invoked = true
	rec.callStep = l.sched.step
	rec.queueStep = l.sched.step
	l.sched.Logf("  %s Lock R=%v W=%v", rec.name, rec.read, rec.write)
	defer func() {
		if e := recover(); e != nil && !t.Gen.dead.Load() {
			rec.holding = false
			l.sched.Logf("  %s PANIC in the locker", rec.name)
			l.violate("locker-panics", fmt.Sprintf("%s: the lock manager panicked: %v", rec.name, e))
			l.setCur(t, nil)
		}
	}()
	unlock, err := locker.Lock(rctx, command.Accounts{Read: rec.read, Write: rec.write})
	if t.Gen.dead.Load() {
		return
	}
	rec.returned = true
	rec.retStep = l.sched.step
	rec.err = err
	if rec.retStep > rec.callStep {
		l.count("probe.lock-queued")
	}
	if err != nil {
		l.sched.Logf("  %s Lock -> error (cancelled=%v)", rec.name, rec.cancelled)
		l.count("probe.lock-error-returned")
		if !rec.cancelled {
			l.violate("lock-error-without-cancellation", fmt.Sprintf("%s: Lock returned an error although its context was never cancelled: %v", rec.name, err))
		}
	} else {
		rec.holding = true
		l.sched.Logf("  %s Lock -> granted", rec.name)
		if rec.cancelled {
			l.count("probe.granted-despite-cancel")
		}
		for i := 0; i < req.Hold; i++ {
			l.sched.yieldTask(t, "lk.hold", true)
			if t.Gen.dead.Load() {
				return
			}
		}
		rec.holding = false
		rec.unlocking = true
		l.sched.Logf("  %s unlock", rec.name)
		unlock(rctx)
		rec.unlocking = false
		if t.Gen.dead.Load() {
			return
		}
	}
	l.setCur(t, nil)
	l.sched.yieldTask(t, "lk.done", true)
}

// checkExclusion: at every step, for every account, writers <= 1 and a writer
// excludes every other holder.
func (l *lockerSim) checkExclusion() {
	type use struct{ readers, writers []string }
	by := map[string]*use{}
	for _, r := range l.recs {
		if !r.holding {
			continue
		}
		w := map[string]bool{}
		for _, a := range r.write {
			w[a] = true
		}
		seen := map[string]bool{}
		for _, a := range r.write {
			if seen[a] {
				continue
			}
			seen[a] = true
			if by[a] == nil {
				by[a] = &use{}
			}
			by[a].writers = append(by[a].writers, r.name)
		}
		for _, a := range r.read {
			if seen[a] || w[a] {
				continue
			}
			seen[a] = true
			if by[a] == nil {
				by[a] = &use{}
			}
			by[a].readers = append(by[a].readers, r.name)
		}
	}
	accts := make([]string, 0, len(by))
	for a := range by {
		accts = append(accts, a)
	}
	sort.Strings(accts)
	for _, a := range accts {
		u := by[a]
		if len(u.writers) > 1 {
			l.violate("lock-overlap", fmt.Sprintf("account %s is held for writing by %v at the same time", a, u.writers), "write-write")
		} else if len(u.writers) == 1 && len(u.readers) > 0 {
			l.violate("lock-overlap", fmt.Sprintf("account %s is held for writing by %v while %v hold it for reading", a, u.writers, u.readers), "read-write")
		}
	}
	if len(by) > 0 {
		holders := 0
		for _, r := range l.recs {
			if r.holding {
				holders++
			}
		}
		if holders > 1 {
			l.counter["probe.concurrent-holders"]++
		}
	}
}

// checkNoNeedlessWait: "grants every pending request once the conflicting holders have
// released". At a quiescent point a request still waiting inside Lock must conflict with
// something that may hold a lock: a request whose Lock has returned and that has not
// finished unlocking (holding, or parked at lock.release), a request already granted
// (parked at lock.granted), or a cancelled waiter that may have been granted meanwhile
// (parked at lock.cancelled). Otherwise its conflicting holders are gone and it was not
// granted.
func (l *lockerSim) checkNoNeedlessWait(ps []*Task, tasks []*Task) {
	parkedAt := map[*Task]string{}
	for _, p := range ps {
		parkedAt[p] = p.point
	}
	reads, writes := map[string]bool{}, map[string]bool{}
	add := func(r *lockRec) {
		for _, a := range r.read {
			reads[a] = true
		}
		for _, a := range r.write {
			writes[a] = true
		}
	}
	for _, r := range l.recs {
		if r.holding || r.unlocking {
			add(r)
		}
	}
	for _, tk := range tasks {
		r := l.cur[tk]
		if r == nil || !r.invoked || r.returned {
			continue
		}
		// inside Lock and parked somewhere (granted and not yet returned, cancelled and possibly
		// granted meanwhile, or -- in fine-grained mode -- anywhere on its way): it may hold locks
		if _, isParked := parkedAt[tk]; isParked {
			add(r)
		}
	}
	// The waiting requests (inside Lock, not parked anywhere, not cancelled).
	var waiting []*lockRec
	for _, tk := range tasks {
		r := l.cur[tk]
		if r == nil || !r.invoked || r.returned || r.cancelled {
			continue
		}
		if _, isParked := parkedAt[tk]; isParked {
			continue
		}
		waiting = append(waiting, r)
	}
	conflicts := func(r, q *lockRec) bool {
		qw, qr := map[string]bool{}, map[string]bool{}
		for _, a := range q.write {
			qw[a] = true
		}
		for _, a := range q.read {
			qr[a] = true
		}
		for _, a := range r.read {
			if qw[a] {
				return true
			}
		}
		for _, a := range r.write {
			if qw[a] || qr[a] {
				return true
			}
		}
		return false
	}
	// A waiter has a reason to wait when it conflicts with something that holds or may hold a
	// lock -- or with another waiter that has a reason to wait: a lock manager may keep a request
	// behind a waiter it conflicts with (first come first served per account, writers not
	// starved, ...), which is not a lost grant. Which of two waiters came first is the lock
	// manager's own business (it cannot be read off the schedule reliably once scheduling points
	// sit between the statements of Lock), so the order is not part of the rule; a request that
	// waits for ever is caught at the end of the run whatever the policy.
	justified := map[*lockRec]bool{}
	for _, r := range waiting {
		for _, a := range r.read {
			if writes[a] {
				justified[r] = true
			}
		}
		for _, a := range r.write {
			if writes[a] || reads[a] {
				justified[r] = true
			}
		}
	}
	for changed := true; changed; {
		changed = false
		for _, r := range waiting {
			if justified[r] {
				continue
			}
			for _, q := range waiting {
				if q != r && justified[q] && conflicts(r, q) {
					justified[r] = true
					changed = true
					break
				}
			}
		}
	}
	for _, r := range waiting {
		if !justified[r] {
			l.violate("waiting-although-compatible", fmt.Sprintf("%s (R=%v W=%v) is still waiting inside Lock although nothing that holds or may hold a lock conflicts with it, directly or through another waiting request", r.name, r.read, r.write))
		}
	}
}

// probe: after everything has finished, a request write-locking all accounts
// must be granted at once; a leaked lock or a corrupted waiting list makes it block.
func (l *lockerSim) probe(base context.Context, gen *Generation, locker *command.DefaultLocker) {
	var all []string
	for i := 0; i < l.in.Accounts; i++ {
		all = append(all, lockAcct(i))
	}
	granted := false
	pt := l.sched.spawn(base, gen, "probe", func(ctx context.Context, t *Task) {
		unlock, err := locker.Lock(ctx, command.Accounts{Write: all})
		if err == nil {
			granted = true
			unlock(ctx)
		}
	})
	for i := 0; i < 50; i++ {
		quiesce()
		l.sched.step++
		ps := l.sched.snapshotParked()
		if len(ps) == 0 {
			break
		}
		l.sched.Logf("step %d: run %s @%s", l.sched.step, ps[0].Name, ps[0].point)
		l.sched.release(ps[0])
	}
	l.sched.mu.Lock()
	fin := pt.finished
	l.sched.mu.Unlock()
	if !fin || !granted {
		var cancelled []string
		for _, r := range l.recs {
			if r.cancelled {
				cancelled = append(cancelled, r.name)
			}
		}
		feat := "after-cancellation"
		if len(cancelled) == 0 {
			feat = "no-cancellation"
		}
		l.sched.Logf("step %d: probe write-lock on all accounts not granted", l.sched.step)
		l.violate("lock-leak", fmt.Sprintf("every request has returned and every holder has released, yet a request write-locking all accounts is not granted: something was left behind (cancelled requests: %v)", cancelled), feat)
	}
}

// GenLockerIn draws a locker workload.
func GenLockerIn(t *rapid.T) *LockerIn {
	in := &LockerIn{Accounts: rapid.IntRange(2, 4).Draw(t, "accounts")}
	nt := rapid.IntRange(2, 6).Draw(t, "tasks")
	cancelPct := rapid.SampledFrom([]int{0, 10, 30}).Draw(t, "cancelPct")
	for i := 0; i < nt; i++ {
		nr := rapid.IntRange(1, 3).Draw(t, "reqs")
		var reqs []LockReq
		for j := 0; j < nr; j++ {
			r := LockReq{Hold: rapid.IntRange(0, 3).Draw(t, "hold")}
			nrd := rapid.IntRange(0, 2).Draw(t, "nread")
			for k := 0; k < nrd; k++ {
				r.Read = append(r.Read, rapid.IntRange(0, in.Accounts-1).Draw(t, "r"))
			}
			nwr := rapid.IntRange(0, 2).Draw(t, "nwrite")
			for k := 0; k < nwr; k++ {
				r.Write = append(r.Write, rapid.IntRange(0, in.Accounts-1).Draw(t, "w"))
			}
			if pct(t, cancelPct, "hasCancel") {
				r.CancelAtYield = rapid.IntRange(1, 4).Draw(t, "cancelAt")
			}
			reqs = append(reqs, r)
		}
		in.Tasks = append(in.Tasks, reqs)
	}
	if cancelPct > 0 {
		nc := rapid.IntRange(0, 3).Draw(t, "ncancel")
		for i := 0; i < nc; i++ {
			in.Cancels = append(in.Cancels, LockCancel{Step: rapid.IntRange(1, 60).Draw(t, "cstep"), Who: rapid.IntRange(0, 3).Draw(t, "cwho")})
		}
		sort.Slice(in.Cancels, func(i, j int) bool { return in.Cancels[i].Step < in.Cancels[j].Step })
	}
	if len(fineSiteList) > 0 {
		in.FineSites = genFineSites(t, "command/lock.go")
		in.FineHeld = len(in.FineSites) > 0 && rapid.Bool().Draw(t, "fineHeld")
	}
	nOff := rapid.IntRange(0, 2).Draw(t, "nOff")
	for i := 0; i < nOff; i++ {
		in.SitesOff = append(in.SitesOff, rapid.SampledFrom(lockerOptionalSites).Draw(t, "off"))
	}
	ppct := rapid.SampledFrom([]int{0, 20, 50, 80}).Draw(t, "preemptPct")
	nch := rapid.IntRange(0, 80).Draw(t, "nchoices")
	if ppct > 0 {
		for i := 0; i < nch; i++ {
			c := 0
			if rapid.IntRange(0, 99).Draw(t, "pre") < ppct {
				c = rapid.IntRange(1, 5).Draw(t, "ch")
			}
			in.Choices = append(in.Choices, c)
		}
	}
	in.ClockCreepNs = rapid.SampledFrom([]int64{1, 1, 137, 1000}).Draw(t, "creepNs")
	if pct(t, 30, "hasTicks") {
		n := rapid.IntRange(1, 6).Draw(t, "nTicks")
		for i := 0; i < n; i++ {
			in.Ticks = append(in.Ticks, ClockTick{Step: rapid.IntRange(1, 80).Draw(t, "tickStep"),
				Us: rapid.SampledFrom([]int64{1000, 60000, 300000, 1100000, 6000000, 31000000}).Draw(t, "tickUs")})
		}
		sort.SliceStable(in.Ticks, func(i, j int) bool { return in.Ticks[i].Step < in.Ticks[j].Step })
	}
	switch rapid.IntRange(0, 3).Draw(t, "schedStyle") {
	case 0, 1:
		in.TailSeed = rapid.Uint64().Draw(t, "tailSeed")
		in.TailPct = rapid.SampledFrom([]int{5, 20, 50}).Draw(t, "tailPct")
	case 2:
		// priority scheduling from the first decision on
		in.Choices = nil
		in.PCTSeed = rapid.Uint64().Draw(t, "pctSeed")
		in.PCTDepth = rapid.IntRange(1, 4).Draw(t, "pctDepth")
		in.PCTSpan = rapid.SampledFrom([]int{20, 60, 150}).Draw(t, "pctSpan")
	}
	return in
}

// Bookkeeping done on task goroutines: two tasks may run at the same time (a broken lock manager
// can wake two waiters that then both return without meeting a hook), so it takes the scheduler's mutex.
func (l *lockerSim) setCur(t *Task, r *lockRec) {
	l.sched.mu.Lock()
	l.cur[t] = r
	l.sched.mu.Unlock()
}

func (l *lockerSim) addRec(r *lockRec) {
	l.sched.mu.Lock()
	l.recs = append(l.recs, r)
	l.sched.mu.Unlock()
}

func (l *lockerSim) count(k string) {
	l.sched.mu.Lock()
	l.counter[k]++
	l.sched.mu.Unlock()
}
