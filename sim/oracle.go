package verifsim

import (
	"bytes"
	"encoding/json"
	"fmt"
	"math/big"
	"sort"
	"strings"

	ledger "github.com/formancehq/ledger/internal"
	"github.com/formancehq/stack/libs/go-libs/metadata"
)

// ---------------------------------------------------------------------------
// Oracles (DESIGN.md sections 5 and 6). The persisted log is the linearisation
// witness; every check below is a check that the witness is valid.
// ---------------------------------------------------------------------------

type chainState struct {
	entries     []*Entry
	byMarker    map[string][]*Entry
	byIK        map[string][]*Entry
	byMatch     map[string][]*Entry
	byTxID      map[string]*Entry
	revertsOf   map[string][]*Entry
	byRef       map[string][]*Entry
	effectsByIK map[string][]*Entry
	model       map[string]*big.Int // balances folded from the log
	nextTx      int64
}

func (c *chainState) init() {
	if c.byMarker == nil {
		c.byMarker = map[string][]*Entry{}
		c.byIK = map[string][]*Entry{}
		c.byMatch = map[string][]*Entry{}
		c.byTxID = map[string]*Entry{}
		c.revertsOf = map[string][]*Entry{}
		c.byRef = map[string][]*Entry{}
		c.effectsByIK = map[string][]*Entry{}
		c.model = map[string]*big.Int{}
	}
}

func (s *Sim) opByMarker(marker string) *OpRecord {
	for _, o := range s.ops {
		if o.Marker == marker {
			return o
		}
	}
	return nil
}

// onCommit runs inside InsertLogs right after the commit point.
func (s *Sim) onCommit(li *ledgerInst, rows []*Row) {
	c := s.chain[li.idx]
	c.init()
	base := len(li.m.Rows) - len(rows)
	for i, r := range rows {
		idx := base + i
		e, err := decodeEntry(idx, r)
		if err != nil {
			s.violate("C13", "stored-row-unreadable", fmt.Sprintf("%s row %d (%s): %v", li.name, idx, r.Type, err), "type="+r.Type)
			e = &Entry{Idx: idx, Row: r, Type: r.Type}
		}
		c.entries = append(c.entries, e)
		if e.Marker != "" {
			c.byMarker[e.Marker] = append(c.byMarker[e.Marker], e)
		}
		if r.IK != "" {
			c.byIK[r.IK] = append(c.byIK[r.IK], e)
		}
		c.byMatch[e.MatchKey] = append(c.byMatch[e.MatchKey], e)
		if e.Tx != nil {
			c.byTxID[e.Tx.ID.String()] = e
			if e.Tx.Reference != "" {
				c.byRef[e.Tx.Reference] = append(c.byRef[e.Tx.Reference], e)
			}
		}
		if e.Type == "REVERTED_TRANSACTION" {
			c.revertsOf[e.RevertedID] = append(c.revertsOf[e.RevertedID], e)
		}
		s.checkChain(li, c, e)
		s.checkFunds(li, c, e)
		s.checkCommitUniqueness(li, c, e)
	}
}

// ---------------------------------------------------------------------------
// C05: gap-free ids, hash chain over the actual predecessor, tx ids +1
// ---------------------------------------------------------------------------

// checkHandOff looks at a batch as it is handed to Store.InsertLogs by a live process,
// before the store decides anything: it must continue the persisted log (first id = number
// of persisted entries, ids +1 inside the batch, transaction ids continuing the persisted
// ones). The real database would refuse a duplicate id through its unique indexes and the
// process would die on every write; the persisted log would stay "clean" only because
// nothing can be written any more. The engine's obligation is on what it hands over.
func (s *Sim) checkHandOff(li *ledgerInst, logs []*ledger.ChainedLog) {
	prop := "C05"
	if !s.wants("C05") {
		if s.target != "C14" {
			return
		}
		prop = "C14x" // judged by the C14 engine: does it go away when the previews are removed?
	}
	if len(logs) == 0 {
		return
	}
	c := s.chain[li.idx]
	c.init()
	feat := []string{}
	if n := len(li.m.Rows); n > 0 && li.m.Rows[n-1].Gen != s.cur.Idx {
		feat = append(feat, "first-batch-after-restart")
	}
	// A batch that only repeats rows which are already persisted, hash for hash, is a re-send (a
	// retry after a commit that was reported as failed): the store refuses it on its unique index
	// and the persisted log is not touched, so there is nothing to judge here.
	resend := true
	for _, l := range logs {
		if l == nil || l.ID == nil || !l.ID.IsInt64() || l.ID.Int64() < 0 || l.ID.Int64() >= int64(len(li.m.Rows)) ||
			!bytes.Equal(li.m.Rows[l.ID.Int64()].Hash, l.Hash) {
			resend = false
			break
		}
	}
	if resend {
		s.count("probe.batch-resent-after-ambiguous-commit")
		return
	}
	want := int64(len(li.m.Rows))
	nextTx := c.nextTx
	for i, l := range logs {
		if l == nil || l.ID == nil {
			continue
		}
		if l.ID.Cmp(big.NewInt(want+int64(i))) != 0 {
			s.violate(prop, "handed-log-id-not-sequential", fmt.Sprintf("%s: the engine hands the store a batch whose log #%d carries id %s while %d entries are persisted (expected id %d)", li.name, i, l.ID, len(li.m.Rows), want+int64(i)), feat...)
			return
		}
		var txid *big.Int
		switch p := l.Data.(type) {
		case ledger.NewTransactionLogPayload:
			if p.Transaction != nil {
				txid = p.Transaction.ID
			}
		case ledger.RevertedTransactionLogPayload:
			if p.RevertTransaction != nil {
				txid = p.RevertTransaction.ID
			}
		}
		if txid != nil {
			if txid.Cmp(big.NewInt(nextTx)) != 0 {
				s.violate(prop, "handed-txid-not-sequential", fmt.Sprintf("%s: the engine hands the store log %s carrying transaction id %s, expected %d", li.name, l.ID, txid, nextTx), feat...)
				return
			}
			nextTx++
		}
	}
}

func (s *Sim) checkChain(li *ledgerInst, c *chainState, e *Entry) {
	if !s.wants("C05") {
		if e.Tx != nil {
			c.nextTx = new(big.Int).Add(e.Tx.ID, big.NewInt(1)).Int64()
		}
		return
	}
	r := e.Row
	feat := []string{}
	var prev *Row
	if e.Idx > 0 {
		prev = li.m.Rows[e.Idx-1]
		if prev.Gen != r.Gen {
			feat = append(feat, "first-entry-after-restart")
		}
	}
	if r.ID.Cmp(big.NewInt(int64(e.Idx))) != 0 {
		s.violate("C05", "log-id-not-sequential", fmt.Sprintf("%s: entry at position %d carries id %s", li.name, e.Idx, r.ID), feat...)
	}
	// hash = digest(previous hash ++ own content), recomputed with the actual predecessor
	var prevCL *ledger.ChainedLog
	if prev != nil {
		prevCL = &ledger.ChainedLog{ID: new(big.Int).Set(prev.ID), Hash: prev.Hash}
	}
	if r.Orig != nil {
		lg := r.Orig.Log
		recomputed := lg.ChainLog(prevCL)
		if !bytes.Equal(recomputed.Hash, r.Hash) {
			s.violate("C05", "hash-does-not-chain", fmt.Sprintf("%s: entry %d: stored hash is not the digest of its actual predecessor's hash and its content", li.name, e.Idx), feat...)
		}
		s.checkHashDependence(li, e, lg, prevCL, recomputed.Hash)
	}
	if e.Tx != nil {
		if e.Tx.ID.Cmp(big.NewInt(c.nextTx)) != 0 {
			s.violate("C05", "txid-not-sequential", fmt.Sprintf("%s: entry %d carries transaction id %s, expected %d", li.name, e.Idx, e.Tx.ID, c.nextTx), feat...)
		}
		c.nextTx = new(big.Int).Add(e.Tx.ID, big.NewInt(1)).Int64()
	}
}

// checkHashDependence tests, on the repository's own hash function, the
// dependence the property asserts: the digest must change when the predecessor
// hash or any of type / data / date / idempotency key changes.
func (s *Sim) checkHashDependence(li *ledgerInst, e *Entry, lg ledger.Log, prev *ledger.ChainedLog, h []byte) {
	differs := func(what string, l ledger.Log, p *ledger.ChainedLog) {
		if bytes.Equal(l.ChainLog(p).Hash, h) {
			s.violate("C05", "hash-ignores-"+what, fmt.Sprintf("%s: entry %d: changing the %s does not change the hash", li.name, e.Idx, what))
		}
	}
	again := lg
	if !bytes.Equal(again.ChainLog(prev).Hash, h) {
		s.violate("C05", "hash-not-deterministic", fmt.Sprintf("%s: entry %d: same input, different digest", li.name, e.Idx))
	}
	other := &ledger.ChainedLog{ID: big.NewInt(0), Hash: []byte{0xde, 0xad}}
	if prev != nil {
		other = &ledger.ChainedLog{ID: prev.ID, Hash: append(append([]byte(nil), prev.Hash...), 1)}
	}
	differs("previous-hash", lg, other)
	l2 := lg
	l2.IdempotencyKey = lg.IdempotencyKey + "x"
	differs("idempotency-key", l2, prev)
	l3 := lg
	l3.Date = lg.Date.Add(1000)
	differs("date", l3, prev)
	l4 := lg
	l4.Type = (lg.Type + 1) % 4
	differs("type", l4, prev)
	l5 := lg
	l5.Data = map[string]any{"perturbed": e.Idx}
	differs("data", l5, prev)
	// "its own content": every part of the payload, one at a time
	copyTx := func(t *ledger.Transaction) *ledger.Transaction {
		c := *t
		c.Postings = append(ledger.Postings(nil), t.Postings...)
		c.Metadata = metadata.Metadata{}
		for k, v := range t.Metadata {
			c.Metadata[k] = v
		}
		if t.ID != nil {
			c.ID = new(big.Int).Set(t.ID)
		}
		return &c
	}
	withTx := func(t *ledger.Transaction, rebuild func(*ledger.Transaction) any) {
		if t == nil {
			return
		}
		variants := map[string]func(c *ledger.Transaction){
			"transaction-id":        func(c *ledger.Transaction) { c.ID = new(big.Int).Add(c.ID, big.NewInt(1)) },
			"transaction-reference": func(c *ledger.Transaction) { c.Reference += "x" },
			"transaction-timestamp": func(c *ledger.Transaction) { c.Timestamp = c.Timestamp.Add(1000) },
			"transaction-metadata":  func(c *ledger.Transaction) { c.Metadata["\x00perturbed"] = "1" },
		}
		if len(t.Postings) > 0 {
			variants["posting-amount"] = func(c *ledger.Transaction) {
				c.Postings[0].Amount = new(big.Int).Add(c.Postings[0].Amount, big.NewInt(1))
			}
			variants["posting-account"] = func(c *ledger.Transaction) { c.Postings[len(c.Postings)-1].Destination += "x" }
		}
		names := make([]string, 0, len(variants))
		for k := range variants {
			names = append(names, k)
		}
		sort.Strings(names)
		for _, n := range names {
			c := copyTx(t)
			variants[n](c)
			lx := lg
			lx.Data = rebuild(c)
			differs(n, lx, prev)
		}
	}
	switch p := lg.Data.(type) {
	case ledger.NewTransactionLogPayload:
		withTx(p.Transaction, func(c *ledger.Transaction) any {
			return ledger.NewTransactionLogPayload{Transaction: c, AccountMetadata: p.AccountMetadata}
		})
		lx := lg
		am := ledger.AccountMetadata{"\x00perturbed": {"k": "v"}}
		for k, v := range p.AccountMetadata {
			am[k] = v
		}
		lx.Data = ledger.NewTransactionLogPayload{Transaction: p.Transaction, AccountMetadata: am}
		differs("account-metadata", lx, prev)
	case ledger.RevertedTransactionLogPayload:
		withTx(p.RevertTransaction, func(c *ledger.Transaction) any {
			return ledger.RevertedTransactionLogPayload{RevertedTransactionID: p.RevertedTransactionID, RevertTransaction: c}
		})
		if p.RevertedTransactionID != nil {
			lx := lg
			lx.Data = ledger.RevertedTransactionLogPayload{RevertedTransactionID: new(big.Int).Add(p.RevertedTransactionID, big.NewInt(1)), RevertTransaction: p.RevertTransaction}
			differs("reverted-transaction-id", lx, prev)
		}
	case ledger.SetMetadataLogPayload:
		lx := lg
		md := metadata.Metadata{"\x00perturbed": "1"}
		for k, v := range p.Metadata {
			md[k] = v
		}
		lx.Data = ledger.SetMetadataLogPayload{TargetType: p.TargetType, TargetID: p.TargetID, Metadata: md}
		differs("metadata", lx, prev)
		ly := lg
		ly.Data = ledger.SetMetadataLogPayload{TargetType: p.TargetType, TargetID: fmt.Sprint(p.TargetID) + "9", Metadata: p.Metadata}
		differs("target-id", ly, prev)
	case ledger.DeleteMetadataLogPayload:
		lx := lg
		lx.Data = ledger.DeleteMetadataLogPayload{TargetType: p.TargetType, TargetID: p.TargetID, Key: p.Key + "x"}
		differs("key", lx, prev)
		ly := lg
		ly.Data = ledger.DeleteMetadataLogPayload{TargetType: p.TargetType, TargetID: fmt.Sprint(p.TargetID) + "9", Key: p.Key}
		differs("target-id", ly, prev)
	}
}

// ---------------------------------------------------------------------------
// C02 (a): at its position in the log no accepted transaction takes a source
// below the overdraft its request granted.
// ---------------------------------------------------------------------------

type allowance struct {
	unbounded bool
	bound     map[string]*big.Int // account -> granted overdraft
	free      map[string]bool     // accounts granted an unbounded overdraft
}

func (s *Sim) allowanceFor(li *ledgerInst, e *Entry) (allowance, *OpRecord) {
	al := allowance{bound: map[string]*big.Int{}, free: map[string]bool{}}
	switch e.Type {
	case "NEW_TRANSACTION":
		op := s.opByMarker(e.Marker)
		if op == nil {
			return al, nil
		}
		if op.Op.Kind == "script" {
			switch op.Op.Tpl {
			case tplOverdraftUnbounded:
				al.unbounded = true
			case tplOverdraftBounded:
				if b, ok := new(big.Int).SetString(op.Op.Cap, 10); ok {
					al.bound[acctName(op.Op.Src)] = b
				}
			case tplFallbackOverdraft:
				al.free[acctName(op.Op.Src2)] = true
			case tplRaw:
				al.unbounded = true // raw scripts are not used for funds checks
			}
		}
		return al, op
	case "REVERTED_TRANSACTION":
		// find the request: answered ones by transaction id, otherwise any candidate
		var cand []*OpRecord
		for _, o := range s.ops {
			if o.Op.Kind == "revert" && o.Ledger == li.idx && o.TargetTx != nil && o.TargetTx.String() == e.RevertedID {
				if o.Returned && o.Err == nil && o.Tx != nil && bigEq(o.Tx.ID, e.Tx.ID) && !o.Op.DryRun {
					al.unbounded = o.Op.Force
					return al, o
				}
				cand = append(cand, o)
			}
		}
		for _, o := range cand {
			if o.Op.Force {
				al.unbounded = true
			}
		}
		if len(cand) > 0 {
			return al, cand[0]
		}
	}
	return al, nil
}

func (s *Sim) checkFunds(li *ledgerInst, c *chainState, e *Entry) {
	if e.Tx == nil {
		return
	}
	var al allowance
	var op *OpRecord
	want := s.wants("C02") || s.wants("C10")
	if want {
		al, op = s.allowanceFor(li, e)
	}
	for pi, p := range e.Tx.Postings {
		sk, dk := balKey(p.Source, p.Asset), balKey(p.Destination, p.Asset)
		if _, ok := c.model[sk]; !ok {
			c.model[sk] = new(big.Int)
		}
		if _, ok := c.model[dk]; !ok {
			c.model[dk] = new(big.Int)
		}
		c.model[sk].Sub(c.model[sk], p.Amount)
		c.model[dk].Add(c.model[dk], p.Amount)
		if !want || p.Source == "world" || p.Amount.Sign() <= 0 || al.unbounded || al.free[p.Source] {
			continue
		}
		floor := new(big.Int)
		if b, ok := al.bound[p.Source]; ok {
			floor.Neg(b)
		}
		if c.model[sk].Cmp(floor) < 0 {
			feat := []string{}
			who := "?"
			if op != nil {
				who = op.Name
				feat = append(feat, "kind="+op.Op.Kind)
				if op.Op.Kind == "script" {
					feat = append(feat, "tpl="+tplNames[op.Op.Tpl])
				}
			}
			prop, class := "C02", "overdraft-at-log-position"
			if e.Type == "REVERTED_TRANSACTION" {
				feat = append(feat, "revert")
			}
			s.violate(prop, class, fmt.Sprintf("%s: entry %d (request %s) posting %d takes %s %s from %s leaving %s, below the granted floor %s: at its position in the log the source did not hold the funds",
				li.name, e.Idx, who, pi, p.Amount, p.Asset, p.Source, c.model[sk], floor), feat...)
			if e.Type == "REVERTED_TRANSACTION" && op != nil && !op.Op.Force {
				s.violate("C10", "unforced-revert-overdraws", fmt.Sprintf("%s: entry %d: unforced revert of transaction %s leaves %s at %s %s", li.name, e.Idx, e.RevertedID, p.Source, c.model[sk], p.Asset))
			}
		}
	}
}

// checkCommitUniqueness: at most one entry per idempotency key (C07), per
// reference (C11), per reverted transaction (C10); evaluated at every commit.
func (s *Sim) checkCommitUniqueness(li *ledgerInst, c *chainState, e *Entry) {
	// When C14 is the target these once-only rules are evaluated too, under the pseudo-property
	// "C14x": the C14 engine then asks whether the break goes away when the previews are removed.
	p07, p11, p10 := s.propOrC14x("C07"), s.propOrC14x("C11"), s.propOrC14x("C10")
	// C07, by request: entries produced by requests that carried the same key
	if e.Marker != "" && p07 != "" {
		if o := s.opByMarker(e.Marker); o != nil && o.Op.IK != "" && o.Ledger == li.idx {
			c.effectsByIK[o.Op.IK] = append(c.effectsByIK[o.Op.IK], e)
			if es := c.effectsByIK[o.Op.IK]; len(es) > 1 {
				s.violate(p07, "ik-applied-twice", fmt.Sprintf("%s: requests carrying idempotency key %q took effect as entries %d (%s) and %d (%s)", li.name, o.Op.IK, es[0].Idx, es[0].Type, e.Idx, e.Type),
					append(s.restartFeature(es[0], e), "kind="+o.Op.Kind)...)
			}
		}
	}
	if ik := e.Row.IK; ik != "" && len(c.byIK[ik]) > 1 && p07 != "" {
		a, b := c.byIK[ik][0], e
		s.violate(p07, "ik-applied-twice", fmt.Sprintf("%s: idempotency key %q is carried by entries %d and %d", li.name, ik, a.Idx, b.Idx), s.restartFeature(a, b)...)
	}
	if e.Tx != nil && e.Tx.Reference != "" && len(c.byRef[e.Tx.Reference]) > 1 && p11 != "" {
		a := c.byRef[e.Tx.Reference][0]
		s.violate(p11, "duplicate-reference", fmt.Sprintf("%s: reference %q is carried by transactions %s (entry %d) and %s (entry %d)", li.name, e.Tx.Reference, a.Tx.ID, a.Idx, e.Tx.ID, e.Idx), s.restartFeature(a, e)...)
	}
	if e.Type == "REVERTED_TRANSACTION" && p10 != "" {
		if len(c.revertsOf[e.RevertedID]) > 1 {
			a := c.revertsOf[e.RevertedID][0]
			s.violate(p10, "reverted-twice", fmt.Sprintf("%s: transaction %s is reverted by entries %d and %d", li.name, e.RevertedID, a.Idx, e.Idx), s.restartFeature(a, e)...)
		}
		if p10 == "C10" {
			s.checkRevertShape(li, c, e)
		}
	}
}

// propOrC14x: the property itself when it is wanted, "C14x" when C14 is the target, "" otherwise.
func (s *Sim) propOrC14x(prop string) string {
	if s.wants(prop) {
		return prop
	}
	if s.target == "C14" {
		return "C14x"
	}
	return ""
}

func (s *Sim) restartFeature(a, b *Entry) []string {
	if a.Row.Gen != b.Row.Gen {
		return []string{"across-restart"}
	}
	return []string{"same-generation"}
}

// ---------------------------------------------------------------------------
// C10: exact inverse
// ---------------------------------------------------------------------------

func (s *Sim) checkRevertShape(li *ledgerInst, c *chainState, e *Entry) {
	orig, ok := c.byTxID[e.RevertedID]
	if !ok || orig.Idx >= e.Idx || orig.Tx == nil {
		s.violate("C10", "revert-of-unknown-transaction", fmt.Sprintf("%s: entry %d reverts transaction %s which no earlier entry created", li.name, e.Idx, e.RevertedID))
		return
	}
	n := len(orig.Tx.Postings)
	want := make(ledger.Postings, n)
	for i, p := range orig.Tx.Postings {
		want[n-1-i] = ledger.Posting{Source: p.Destination, Destination: p.Source, Asset: p.Asset, Amount: p.Amount}
	}
	if !postingsEqual(want, e.Tx.Postings) {
		s.violate("C10", "revert-not-exact-inverse", fmt.Sprintf("%s: entry %d reverts transaction %s %s with %s, expected %s", li.name, e.Idx, e.RevertedID, fmtPostings(orig.Tx.Postings), fmtPostings(e.Tx.Postings), fmtPostings(want)))
	}
	if got := e.Tx.Metadata[ledger.RevertMetadataSpecKey()]; got != e.RevertedID {
		s.violate("C10", "revert-marker-wrong", fmt.Sprintf("%s: entry %d reverts transaction %s but its revert marker says %q", li.name, e.Idx, e.RevertedID, got))
	}
	// "leaves every account where it stood before the original was applied when nothing else touched it"
	touched := map[string]bool{}
	for _, p := range orig.Tx.Postings {
		touched[balKey(p.Source, p.Asset)] = true
		touched[balKey(p.Destination, p.Asset)] = true
	}
	for i := orig.Idx + 1; i < e.Idx; i++ {
		if o := c.entries[i]; o.Tx != nil {
			for _, p := range o.Tx.Postings {
				delete(touched, balKey(p.Source, p.Asset))
				delete(touched, balKey(p.Destination, p.Asset))
			}
		}
	}
	if len(touched) > 0 {
		// balances just before the original = fold of entries [0, orig.Idx)
		before := map[string]*big.Int{}
		for i := 0; i < orig.Idx; i++ {
			if o := c.entries[i]; o.Tx != nil {
				applyPostings(before, o.Tx.Postings)
			}
		}
		after := map[string]*big.Int{}
		for i := 0; i <= e.Idx; i++ {
			if o := c.entries[i]; o.Tx != nil {
				applyPostings(after, o.Tx.Postings)
			}
		}
		keys := make([]string, 0, len(touched))
		for k := range touched {
			keys = append(keys, k)
		}
		sort.Strings(keys)
		for _, k := range keys {
			b, a := before[k], after[k]
			if b == nil {
				b = new(big.Int)
			}
			if a == nil {
				a = new(big.Int)
			}
			if a.Cmp(b) != 0 {
				s.violate("C10", "revert-does-not-restore-balance", fmt.Sprintf("%s: entry %d reverts transaction %s; nothing else touched %s in between, yet its balance is %s instead of %s", li.name, e.Idx, e.RevertedID, strings.ReplaceAll(k, "\x00", "/"), a, b))
			}
		}
	}
}

func applyPostings(m map[string]*big.Int, ps ledger.Postings) {
	for _, p := range ps {
		sk, dk := balKey(p.Source, p.Asset), balKey(p.Destination, p.Asset)
		if _, ok := m[sk]; !ok {
			m[sk] = new(big.Int)
		}
		if _, ok := m[dk]; !ok {
			m[dk] = new(big.Int)
		}
		m[sk].Sub(m[sk], p.Amount)
		m[dk].Add(m[dk], p.Amount)
	}
}

// ---------------------------------------------------------------------------
// at the response: C06 (persisted no later than answered, content), C07, C16
// ---------------------------------------------------------------------------

func (s *Sim) onReturn(o *OpRecord, li *ledgerInst) {
	c := s.chain[li.idx]
	c.init()
	if o.Panicked {
		s.count("probe.client-panic")
	}
	if o.Err != nil {
		return
	}
	if o.Op.DryRun {
		if o.published > 0 {
			if s.wants("C14") {
				s.violate("C14", "preview-published", fmt.Sprintf("%s: preview request %s put %d event(s) on the bus", li.name, o.Name, o.published), "kind="+o.Op.Kind)
			}
			if s.wants("C16") {
				s.violate("C16", "event-for-preview", fmt.Sprintf("%s: preview request %s put %d event(s) on the bus although nothing was committed", li.name, o.Name, o.published), "kind="+o.Op.Kind)
			}
		}
		return
	}
	// locate the entry this success stands for
	var e *Entry
	replay := false
	if o.Op.IK != "" {
		if es := c.byIK[o.Op.IK]; len(es) > 0 {
			e = es[len(es)-1]
			replay = e.MatchKey != o.matchKey() || (e.Marker != "" && e.Marker != o.Marker)
		}
	}
	if e == nil {
		if es := c.byMatch[o.matchKey()]; len(es) > 0 {
			e = es[len(es)-1]
			if o.Op.Kind == "revert" && o.Tx != nil {
				e = nil
				for _, x := range es {
					if x.Tx != nil && bigEq(x.Tx.ID, o.Tx.ID) {
						e = x
					}
				}
			}
		}
	}
	if e == nil {
		if s.wants("C06") {
			s.violate("C06", "ack-before-persist", fmt.Sprintf("%s: request %s (%s) was answered with success at step %d but no entry for it is persisted at that moment", li.name, o.Name, o.Op.Kind, s.sched.step), "kind="+o.Op.Kind)
		}
		if o.Op.IK != "" && s.wants("C07") {
			s.violate("C07", "ik-success-without-entry", fmt.Sprintf("%s: request %s with idempotency key %q reports success but no entry carries the key", li.name, o.Name, o.Op.IK))
		}
		return
	}
	o.entryAtReturn = e.Idx
	if replay {
		s.count("probe.ik-replay-answered")
	}
	// content: what the caller got back is what the entry holds
	if o.Tx != nil && e.Tx != nil {
		if d := txDiff(o.Tx, e.Tx); d != "" {
			if replay || o.Op.IK != "" {
				if s.wants("C07") {
					s.violate("C07", "ik-replay-differs-from-entry", fmt.Sprintf("%s: request %s (ik %q) got a transaction that differs from the single stored effect (entry %d): %s", li.name, o.Name, o.Op.IK, e.Idx, d))
				}
			}
			if s.wants("C06") {
				s.violate("C06", "response-differs-from-entry", fmt.Sprintf("%s: request %s got a transaction that differs from its entry %d: %s", li.name, o.Name, e.Idx, d), "kind="+o.Op.Kind)
			}
		}
	}
	if o.Tx != nil && e.Tx == nil && s.wants("C07") {
		s.violate("C07", "ik-replay-of-other-kind", fmt.Sprintf("%s: request %s (ik %q) got a transaction but the stored effect (entry %d) is a %s", li.name, o.Name, o.Op.IK, e.Idx, e.Type))
	}
	// C16's "every persisted change is published at least once" is judged at the end of orderly
	// generations (finalC16), not here: the statement does not say the event precedes the answer.
	_ = replay
}

// ---------------------------------------------------------------------------
// C16 at publish time
// ---------------------------------------------------------------------------

type eventEnvelope struct {
	Type    string          `json:"type"`
	Payload json.RawMessage `json:"payload"`
}

func (s *Sim) onPublish(p *PubRecord) {
	if !s.wants("C16") && !s.wants("C14") {
		return
	}
	c := s.chain[p.Ledger]
	c.init()
	name := ledgerName(p.Ledger)
	if p.Op != nil && p.Op.Op.DryRun {
		if s.wants("C14") {
			s.violate("C14", "preview-published", fmt.Sprintf("%s: preview request %s put an event (%s) on the bus", name, p.Op.Name, p.Topic), "kind="+p.Op.Op.Kind)
		}
		if s.wants("C16") {
			s.violate("C16", "event-for-preview", fmt.Sprintf("%s: preview request %s put an event (%s) on the bus although nothing was committed", name, p.Op.Name, p.Topic), "kind="+p.Op.Op.Kind)
		}
		return
	}
	if !s.wants("C16") {
		return
	}
	var env eventEnvelope
	if err := json.Unmarshal(p.Payload, &env); err != nil {
		s.violate("C16", "event-not-json", fmt.Sprintf("%s: %v", name, err))
		return
	}
	if env.Type != p.Topic {
		s.violate("C16", "event-type-topic-mismatch", fmt.Sprintf("%s: event of type %q published on topic %q", name, env.Type, p.Topic))
	}
	_, generic, err := normaliseJSON(env.Payload)
	if err != nil {
		s.violate("C16", "event-not-json", fmt.Sprintf("%s: %v", name, err))
		return
	}
	pl := asMap(generic)
	if got := asString(pl["ledger"]); got != name {
		s.violate("C16", "event-wrong-ledger", fmt.Sprintf("event published for ledger %q by ledger %s", got, name))
	}
	parseTx := func(v any) *ledger.Transaction {
		raw, _ := json.Marshal(v)
		var tx ledger.Transaction
		if err := json.Unmarshal(raw, &tx); err != nil || tx.ID == nil {
			return nil
		}
		return &tx
	}
	switch env.Type {
	case "COMMITTED_TRANSACTIONS":
		txs, _ := pl["transactions"].([]any)
		if len(txs) == 0 {
			s.violate("C16", "event-without-content", fmt.Sprintf("%s: COMMITTED_TRANSACTIONS without transactions", name))
			return
		}
		var merged []*Entry
		defer func() {
			if len(merged) < 2 {
				return
			}
			sort.Slice(merged, func(i, j int) bool { return merged[i].Idx < merged[j].Idx })
			want := map[string]map[string]string{}
			for _, e := range merged {
				for acct, md := range e.AcctMeta {
					if want[acct] == nil {
						want[acct] = map[string]string{}
					}
					for k, v := range md {
						want[acct][k] = v
					}
				}
			}
			am := map[string]map[string]string{}
			for k, v := range asMap(pl["accountMetadata"]) {
				am[k] = metaFromAny(v)
			}
			if !acctMetaEqual(am, want) {
				s.violate("C16", "event-differs-from-entry", fmt.Sprintf("%s: COMMITTED_TRANSACTIONS announcing %d transactions carries account metadata %v, their entries merged in log order give %v", name, len(merged), am, want), "type=COMMITTED_TRANSACTIONS", "field=accountMetadata")
			}
		}()
		for _, t := range txs {
			tx := parseTx(t)
			if tx == nil {
				s.violate("C16", "event-without-content", fmt.Sprintf("%s: COMMITTED_TRANSACTIONS with an unreadable transaction", name))
				continue
			}
			e := c.byTxID[tx.ID.String()]
			if e == nil || e.Type != "NEW_TRANSACTION" {
				s.violate("C16", "event-without-entry", fmt.Sprintf("%s: COMMITTED_TRANSACTIONS announces transaction %s at step %d but no persisted NEW_TRANSACTION entry carries it", name, tx.ID, s.sched.step), "type=COMMITTED_TRANSACTIONS")
				continue
			}
			e.Published++
			if d := txDiff(tx, e.Tx); d != "" {
				s.violate("C16", "event-differs-from-entry", fmt.Sprintf("%s: COMMITTED_TRANSACTIONS for transaction %s differs from entry %d: %s", name, tx.ID, e.Idx, d), "type=COMMITTED_TRANSACTIONS")
			}
			am := map[string]map[string]string{}
			for k, v := range asMap(pl["accountMetadata"]) {
				am[k] = metaFromAny(v)
			}
			if len(txs) > 1 {
				// an event that announces several transactions carries ONE account-metadata map: the
				// entries' maps merged in log order (a later entry overrides an earlier one)
				merged = append(merged, e)
			} else if !acctMetaEqual(am, e.AcctMeta) {
				s.violate("C16", "event-differs-from-entry", fmt.Sprintf("%s: COMMITTED_TRANSACTIONS for transaction %s carries account metadata %v, entry %d has %v", name, tx.ID, am, e.Idx, e.AcctMeta), "type=COMMITTED_TRANSACTIONS", "field=accountMetadata")
			}
		}
	case "REVERTED_TRANSACTION":
		reverted, revert := parseTx(pl["revertedTransaction"]), parseTx(pl["revertTransaction"])
		if reverted == nil || revert == nil {
			s.violate("C16", "event-without-content", fmt.Sprintf("%s: REVERTED_TRANSACTION without both transactions", name))
			return
		}
		e := c.byTxID[revert.ID.String()]
		if e != nil && e.Type == "REVERTED_TRANSACTION" && e.RevertedID == reverted.ID.String() {
			e.Published++
			if d := txDiff(revert, e.Tx); d != "" {
				s.violate("C16", "event-differs-from-entry", fmt.Sprintf("%s: REVERTED_TRANSACTION: revertTransaction differs from entry %d: %s", name, e.Idx, d), "type=REVERTED_TRANSACTION")
			}
			if o := c.byTxID[reverted.ID.String()]; o != nil && o.Tx != nil {
				// (its metadata may have been changed since by metadata writes; the rest may not)
				if !postingsEqual(o.Tx.Postings, reverted.Postings) {
					s.violate("C16", "event-differs-from-entry", fmt.Sprintf("%s: REVERTED_TRANSACTION: revertedTransaction %s carries postings %s, the log has %s", name, reverted.ID, fmtPostings(reverted.Postings), fmtPostings(o.Tx.Postings)), "type=REVERTED_TRANSACTION")
				}
				if o.Tx.Reference != reverted.Reference || !o.Tx.Timestamp.Equal(reverted.Timestamp) {
					s.violate("C16", "event-differs-from-entry", fmt.Sprintf("%s: REVERTED_TRANSACTION: revertedTransaction %s carries reference %q / timestamp %s, the log has %q / %s", name, reverted.ID, reverted.Reference, reverted.Timestamp.Format(ledger.DateFormat), o.Tx.Reference, o.Tx.Timestamp.Format(ledger.DateFormat)), "type=REVERTED_TRANSACTION", "field=reference-or-timestamp")
				}
			}
			return
		}
		// roles swapped?
		if x := c.byTxID[reverted.ID.String()]; x != nil && x.Type == "REVERTED_TRANSACTION" && x.RevertedID == revert.ID.String() {
			s.violate("C16", "revert-event-roles-swapped", fmt.Sprintf("%s: REVERTED_TRANSACTION names transaction %s as the reverted one and %s as the reverting one; entry %d says the opposite", name, reverted.ID, revert.ID, x.Idx), "type=REVERTED_TRANSACTION")
			return
		}
		s.violate("C16", "event-without-entry", fmt.Sprintf("%s: REVERTED_TRANSACTION (reverted=%s, revert=%s) matches no persisted entry at step %d", name, reverted.ID, revert.ID, s.sched.step), "type=REVERTED_TRANSACTION")
	case "SAVED_METADATA":
		md := metaFromAny(pl["metadata"])
		tt, tid := asString(pl["targetType"]), asString(pl["targetId"])
		var found *Entry
		for _, e := range c.byMatch["sreq:"+md["sreq"]] {
			found = e
		}
		if md["sreq"] == "" {
			for _, e := range c.entries {
				if e.Type == "SET_METADATA" && e.TargetType == tt && e.TargetID == tid && metaEqual(e.Meta, md) {
					found = e
				}
			}
		}
		if found == nil {
			s.violate("C16", "event-without-entry", fmt.Sprintf("%s: SAVED_METADATA on %s %s matches no persisted entry at step %d", name, tt, tid, s.sched.step), "type=SAVED_METADATA")
			return
		}
		found.Published++
		if found.TargetType != tt || found.TargetID != tid || !metaEqual(found.Meta, md) {
			s.violate("C16", "event-differs-from-entry", fmt.Sprintf("%s: SAVED_METADATA says %s %s %v, entry %d says %s %s %v", name, tt, tid, md, found.Idx, found.TargetType, found.TargetID, found.Meta), "type=SAVED_METADATA")
		}
	case "DELETED_METADATA":
		tt, tid, key := asString(pl["targetType"]), asString(pl["targetId"]), asString(pl["key"])
		es := c.byMatch["del:"+tt+":"+tid+":"+key]
		if len(es) == 0 {
			s.violate("C16", "event-without-entry", fmt.Sprintf("%s: DELETED_METADATA on %s %s key %q matches no persisted entry at step %d", name, tt, tid, key, s.sched.step), "type=DELETED_METADATA")
			return
		}
		// attribute the event to the least-published matching entry
		// (entries for the same target and key have the same content; they differ at most by
		// their idempotency key, which identifies the publishing request's own entry)
		cand := es
		if p.Op != nil {
			var own []*Entry
			for _, x := range es {
				if x.Row.IK == p.Op.Op.IK {
					own = append(own, x)
				}
			}
			if len(own) > 0 {
				cand = own
			}
		}
		best := cand[0]
		for _, x := range cand {
			if x.Published < best.Published {
				best = x
			}
		}
		best.Published++
	default:
		s.violate("C16", "event-unknown-type", fmt.Sprintf("%s: event of unknown type %q", name, env.Type))
	}
}

func acctMetaEqual(a, b map[string]map[string]string) bool {
	n := func(m map[string]map[string]string) map[string]map[string]string {
		out := map[string]map[string]string{}
		for k, v := range m {
			if len(v) > 0 {
				out[k] = v
			}
		}
		return out
	}
	a, b = n(a), n(b)
	if len(a) != len(b) {
		return false
	}
	for k, v := range a {
		if !metaEqual(v, b[k]) {
			return false
		}
	}
	return true
}

// ---------------------------------------------------------------------------
// end of run
// ---------------------------------------------------------------------------

func (s *Sim) finalOracles() {
	for li, c := range s.chain {
		c.init()
		name := ledgerName(li)
		s.finalC06(li, name, c)
		s.finalC07(li, name, c)
		s.finalC10(li, name, c)
		s.finalC11(li, name, c)
		s.finalC14(li, name, c)
		s.finalC16(li, name, c)
		if s.wants("C13") {
			s.auditLedger(li, "end-of-run")
		}
		if s.wants("C02") || s.wants("C08") {
			s.reexecute(li, name, c)
		}
	}
	s.probes()
}

func (s *Sim) ledgerOps(li int) []*OpRecord {
	var out []*OpRecord
	for _, o := range s.ops {
		if o.Ledger == li {
			out = append(out, o)
		}
	}
	return out
}

func (o *OpRecord) success() bool    { return o.Returned && o.Err == nil }
func (o *OpRecord) failed() bool     { return o.Returned && o.Err != nil }
func (o *OpRecord) unanswered() bool { return o.Invoked && !o.Returned }

func (s *Sim) finalC06(li int, name string, c *chainState) {
	if !s.wants("C06") {
		return
	}
	ops := s.ledgerOps(li)
	// entries carrying a marker: the producing request must exist and must not have been rejected
	for _, e := range c.entries {
		if e.Row.Gen < 0 {
			continue // seeded history (Config.TxIDBase)
		}
		if e.Type == "NEW_TRANSACTION" || e.Type == "SET_METADATA" {
			o := s.opByMarker(e.Marker)
			if e.Marker == "" || o == nil || o.Ledger != li {
				s.violate("C06", "entry-without-request", fmt.Sprintf("%s: entry %d (%s, marker %q) was produced by no request", name, e.Idx, e.Type, e.Marker), "type="+e.Type)
				continue
			}
			if o.failed() {
				s.violate("C06", "entry-for-rejected-request", fmt.Sprintf("%s: request %s returned an error (%s) yet entry %d is its effect", name, o.Name, o.ErrClass, e.Idx), "kind="+o.Op.Kind, "err="+o.ErrClass)
			}
			if len(c.byMarker[e.Marker]) > 1 && c.byMarker[e.Marker][0] == e {
				s.violate("C06", "duplicate-entry", fmt.Sprintf("%s: request %s has %d entries", name, o.Name, len(c.byMarker[e.Marker])), "kind="+o.Op.Kind)
			}
		}
	}
	// marker-less kinds (revert, delete metadata): multiset bounds per match key
	type agg struct {
		groups     map[string]bool
		successes  int
		unanswered int
	}
	byKey := map[string]*agg{}
	for _, o := range ops {
		if o.Op.Kind != "revert" && o.Op.Kind != "delmeta" {
			continue
		}
		if o.Op.DryRun {
			continue
		}
		k := o.matchKey()
		a := byKey[k]
		if a == nil {
			a = &agg{groups: map[string]bool{}}
			byKey[k] = a
		}
		switch {
		case o.success():
			if o.Op.IK != "" {
				// an IK replay of another kind of write answers without touching this key
				if es := c.byIK[o.Op.IK]; len(es) > 0 && es[len(es)-1].MatchKey != k {
					continue
				}
				a.groups["ik:"+o.Op.IK] = true
			} else {
				a.successes++
			}
		case o.unanswered():
			a.unanswered++
		}
	}
	keys := map[string]bool{}
	for k := range byKey {
		keys[k] = true
	}
	for k, es := range c.byMatch {
		if len(es) > 0 && (strings.HasPrefix(k, "revert:") || strings.HasPrefix(k, "del:")) {
			keys[k] = true
		}
	}
	sorted := make([]string, 0, len(keys))
	for k := range keys {
		sorted = append(sorted, k)
	}
	sort.Strings(sorted)
	for _, k := range sorted {
		a := byKey[k]
		if a == nil {
			a = &agg{groups: map[string]bool{}}
		}
		E := len(c.byMatch[k])
		S := a.successes + len(a.groups)
		if E < S {
			s.violate("C06", "success-without-entry", fmt.Sprintf("%s: %d successful request(s) for %q but only %d entr(y/ies)", name, S, k, E), "key="+strings.SplitN(k, ":", 2)[0])
		}
		if E > S+a.unanswered {
			s.violate("C06", "entry-for-rejected-request", fmt.Sprintf("%s: %d entr(y/ies) for %q but only %d successful and %d unanswered request(s)", name, E, k, S, a.unanswered), "key="+strings.SplitN(k, ":", 2)[0])
		}
	}
	// real-time order: A answered before B was invoked => A's entry precedes B's
	type pos struct {
		o   *OpRecord
		idx int
	}
	var placed []pos
	for _, o := range ops {
		if o.success() && !o.Op.DryRun && o.entryAtReturn >= 0 && o.Op.IK == "" {
			placed = append(placed, pos{o, o.entryAtReturn})
		}
	}
	for _, a := range placed {
		for _, b := range placed {
			if a.o.ReturnStep < b.o.InvokeStep && a.idx > b.idx {
				s.violate("C06", "log-order-contradicts-real-time", fmt.Sprintf("%s: %s was answered (step %d) before %s was invoked (step %d) but its entry %d follows entry %d", name, a.o.Name, a.o.ReturnStep, b.o.Name, b.o.InvokeStep, a.idx, b.idx))
			}
		}
	}
}

func (s *Sim) finalC07(li int, name string, c *chainState) {
	if !s.wants("C07") {
		return
	}
	// every success sharing a key returns the outcome of the single effect
	byIK := map[string][]*OpRecord{}
	for _, o := range s.ledgerOps(li) {
		if o.Op.IK != "" && o.success() && !o.Op.DryRun {
			byIK[o.Op.IK] = append(byIK[o.Op.IK], o)
		}
	}
	// marker-less kinds (revert, delete metadata): when every request for a match key carried the
	// same idempotency key, at most one entry may exist for it
	type mk struct {
		iks    map[string]bool
		kind   string
		hasAny bool
	}
	byKey := map[string]*mk{}
	for _, o := range s.ledgerOps(li) {
		if (o.Op.Kind != "revert" && o.Op.Kind != "delmeta") || o.Op.DryRun || !o.Invoked {
			continue
		}
		k := o.matchKey()
		if byKey[k] == nil {
			byKey[k] = &mk{iks: map[string]bool{}, kind: o.Op.Kind}
		}
		byKey[k].iks[o.Op.IK] = true
	}
	mkeys := make([]string, 0, len(byKey))
	for k := range byKey {
		mkeys = append(mkeys, k)
	}
	sort.Strings(mkeys)
	for _, k := range mkeys {
		m := byKey[k]
		if len(m.iks) == 1 && !m.iks[""] && len(c.byMatch[k]) > 1 {
			var ik string
			for x := range m.iks {
				ik = x
			}
			es := c.byMatch[k]
			s.violate("C07", "ik-applied-twice", fmt.Sprintf("%s: every request for %q carried idempotency key %q, yet %d entries exist (%d, %d, ...)", name, k, ik, len(es), es[0].Idx, es[1].Idx),
				append(s.restartFeature(es[0], es[1]), "kind="+m.kind)...)
		}
	}
	iks := make([]string, 0, len(byIK))
	for k := range byIK {
		iks = append(iks, k)
	}
	sort.Strings(iks)
	for _, ik := range iks {
		os := byIK[ik]
		var ref *ledger.Transaction
		var refOp *OpRecord
		for _, o := range os {
			if o.Tx == nil {
				continue
			}
			if ref == nil {
				ref, refOp = o.Tx, o
				continue
			}
			if d := txDiff(ref, o.Tx); d != "" {
				s.violate("C07", "ik-successes-disagree", fmt.Sprintf("%s: requests %s and %s share idempotency key %q and both report success, with different outcomes: %s", name, refOp.Name, o.Name, ik, d))
			}
		}
		if len(os) > 1 {
			s.count("probe.ik-multi-success")
		}
	}
}

func (s *Sim) finalC10(li int, name string, c *chainState) {
	if !s.wants("C10") {
		return
	}
	// per target at most one successful (non-replayed) revert request
	type agg struct {
		n      int
		groups map[string]bool
		names  []string
	}
	byT := map[string]*agg{}
	for _, o := range s.ledgerOps(li) {
		if o.Op.Kind != "revert" || !o.success() || o.Op.DryRun {
			continue
		}
		k := o.TargetTx.String()
		a := byT[k]
		if a == nil {
			a = &agg{groups: map[string]bool{}}
			byT[k] = a
		}
		if o.Op.IK != "" {
			if es := c.byIK[o.Op.IK]; len(es) > 0 && es[len(es)-1].MatchKey != o.matchKey() {
				continue
			}
			if a.groups[o.Op.IK] {
				continue
			}
			a.groups[o.Op.IK] = true
		}
		a.n++
		a.names = append(a.names, o.Name)
	}
	// a forced revert runs with unbounded overdraft: it can never be short of funds
	for _, o := range s.ledgerOps(li) {
		if o.Op.Kind == "revert" && o.Op.Force && o.Returned && o.ErrClass == "machine:insufficient-funds" {
			s.violate("C10", "forced-revert-refused-for-funds", fmt.Sprintf("%s: forced revert %s of transaction %s was refused with insufficient funds", name, o.Name, o.TargetTx), "forced")
		}
	}
	ts := make([]string, 0, len(byT))
	for k := range byT {
		ts = append(ts, k)
	}
	sort.Strings(ts)
	for _, t := range ts {
		if a := byT[t]; a.n > 1 {
			s.violate("C10", "reverted-twice", fmt.Sprintf("%s: transaction %s: %d revert requests report success (%s)", name, t, a.n, strings.Join(a.names, ",")), "by-response")
		}
	}
}

func (s *Sim) finalC11(li int, name string, c *chainState) {
	if !s.wants("C11") {
		return
	}
	ops := s.ledgerOps(li)
	for _, h := range ops {
		if h.Op.Ref == "" || !h.success() || h.Op.DryRun || h.entryAtReturn < 0 {
			continue
		}
		if (h.Op.Kind != "script" && h.Op.Kind != "postings") || c.entries[h.entryAtReturn].Tx == nil || c.entries[h.entryAtReturn].Tx.Reference != h.Op.Ref {
			continue
		}
		for _, o := range ops {
			if o == h || o.Op.Ref != h.Op.Ref || !o.Returned || o.InvokeStep <= h.ReturnStep {
				continue
			}
			if o.Op.Kind != "script" && o.Op.Kind != "postings" {
				continue
			}
			switch o.ErrClass {
			case "tx:CONFLICT", "store-error", "cancelled", "in-flight-conflict", "dead", "panic":
				continue
			case "other":
				// refused for a reason outside the vocabulary of this oracle (e.g. "the ledger is
				// shutting down"): a refusal, and nothing says it should have been a conflict
				continue
			}
			if o.success() && o.Op.IK != "" {
				replayed := false
				for _, x := range c.byIK[o.Op.IK] {
					if x.Marker != o.Marker {
						replayed = true
					}
				}
				if replayed {
					continue // answered from an earlier effect of its idempotency key
				}
			}
			s.violate("C11", "late-duplicate-not-conflict", fmt.Sprintf("%s: %s was invoked (step %d) after %s had been acknowledged (step %d) with the same reference %q, and ended with %q instead of a conflict", name, o.Name, o.InvokeStep, h.Name, h.ReturnStep, h.Op.Ref, o.ErrClass), "outcome="+o.ErrClass)
		}
	}
}

func (s *Sim) finalC14(li int, name string, c *chainState) {
	if !s.wants("C14") {
		return
	}
	for _, o := range s.ledgerOps(li) {
		if !o.Op.DryRun {
			continue
		}
		if es := c.byMarker[o.Marker]; len(es) > 0 && (o.Op.Kind == "script" || o.Op.Kind == "postings" || o.Op.Kind == "setmeta") {
			s.violate("C14", "preview-persisted", fmt.Sprintf("%s: preview request %s left entry %d in the log", name, o.Name, es[0].Idx), "kind="+o.Op.Kind)
		}
	}
}

// finalC16: "every persisted change is published at least once". Judged for generations that
// ended in an orderly way (every request answered, no crash): each entry committed by such a
// generation must have been described by an event -- whatever its request was told (a request
// answered with an error, e.g. after a cancellation, may still have its entry persisted).
func (s *Sim) finalC16(li int, name string, c *chainState) {
	if !s.wants("C16") {
		return
	}
	orderly := map[int]bool{}
	for _, g := range s.gens {
		orderly[g.Idx] = !g.crashed && g.bootDone
	}
	// requests of that generation must all have been answered
	for _, o := range s.ops {
		if o.Invoked && !o.Returned {
			orderly[o.Gen] = false
		}
	}
	// a request answered with success on behalf of an entry of its own kind -- its producer, or an
	// idempotent replay of it, possibly in a later generation than the one that committed it --
	// implies that the entry has been published by the end of the answering generation
	for _, o := range s.ledgerOps(li) {
		if !o.success() || o.Op.DryRun || o.entryAtReturn < 0 || o.entryAtReturn >= len(c.entries) || !orderly[o.Gen] {
			continue
		}
		e := c.entries[o.entryAtReturn]
		if !sameKindAndTarget(o, e) || e.Published > 0 || o.published > 0 {
			continue
		}
		if e.Type == "DELETE_METADATA" {
			n := 0
			for _, x := range c.byMatch[e.MatchKey] {
				n += x.Published
			}
			if n > 0 {
				continue
			}
		}
		s.violate("C16", "committed-change-never-published", fmt.Sprintf("%s: request %s was answered with success on behalf of entry %d (%s, committed by generation %d), yet by the end of its (orderly) generation %d no event has ever described that entry", name, o.Name, e.Idx, e.Type, e.Row.Gen, o.Gen), "type="+e.Type, "answered-replay")
	}
	delPublished, delEntries := map[string]int{}, map[string][]*Entry{}
	for _, e := range c.entries {
		if e.Row.Gen < 0 || !orderly[e.Row.Gen] {
			continue
		}
		if e.Type == "DELETE_METADATA" {
			delEntries[e.MatchKey] = append(delEntries[e.MatchKey], e)
			continue
		}
		if e.Published == 0 {
			who := "?"
			if o := s.opByMarker(e.Marker); o != nil {
				who = o.Name + " (" + o.outcomeOrUnanswered() + ")"
			}
			s.violate("C16", "committed-change-never-published", fmt.Sprintf("%s: entry %d (%s, request %s) was committed by a generation that ended in an orderly way, yet no event ever described it", name, e.Idx, e.Type, who), "type="+e.Type)
		}
	}
	for _, e := range c.entries {
		if e.Type == "DELETE_METADATA" {
			delPublished[e.MatchKey] += e.Published
		}
	}
	keys := make([]string, 0, len(delEntries))
	for k := range delEntries {
		keys = append(keys, k)
	}
	sort.Strings(keys)
	for _, k := range keys {
		if delPublished[k] < len(delEntries[k]) {
			s.violate("C16", "committed-change-never-published", fmt.Sprintf("%s: %d DELETE_METADATA entr(y/ies) for %q committed by orderly generations but only %d event(s) described them", name, len(delEntries[k]), k, delPublished[k]), "type=DELETE_METADATA")
		}
	}
}

// sameKindAndTarget: could entry e be the effect of a request like o (the request itself or an
// earlier request it replays through its idempotency key)?
func sameKindAndTarget(o *OpRecord, e *Entry) bool {
	switch o.Op.Kind {
	case "script", "postings":
		return e.Type == "NEW_TRANSACTION"
	case "revert":
		return e.Type == "REVERTED_TRANSACTION" && o.TargetTx != nil && e.RevertedID == o.TargetTx.String()
	case "setmeta", "delmeta":
		want := "SET_METADATA"
		if o.Op.Kind == "delmeta" {
			want = "DELETE_METADATA"
		}
		if e.Type != want {
			return false
		}
		if o.Op.OnTx {
			return e.TargetType == "TRANSACTION" && o.TargetTx != nil && e.TargetID == o.TargetTx.String()
		}
		return e.TargetType == "ACCOUNT" && e.TargetID == o.TargetKey
	}
	return false
}

// probes: rare-condition counters derived from the history.
func (s *Sim) probes() {
	for i, a := range s.ops {
		for _, b := range s.ops[i+1:] {
			if a.Ledger != b.Ledger || !a.Invoked || !b.Invoked {
				continue
			}
			aEnd, bEnd := a.ReturnStep, b.ReturnStep
			if !a.Returned {
				aEnd = 1 << 30
			}
			if !b.Returned {
				bEnd = 1 << 30
			}
			overlap := a.InvokeStep <= bEnd && b.InvokeStep <= aEnd
			if !overlap {
				continue
			}
			if a.Op.Ref != "" && a.Op.Ref == b.Op.Ref {
				s.count("probe.same-reference-in-flight-together")
			}
			if a.Op.IK != "" && a.Op.IK == b.Op.IK {
				s.count("probe.same-ik-in-flight-together")
			}
			if a.Op.Kind == "revert" && b.Op.Kind == "revert" && a.TargetTx != nil && b.TargetTx != nil && a.TargetTx.Cmp(b.TargetTx) == 0 {
				s.count("probe.same-revert-target-in-flight-together")
			}
			if sharesSource(a, b) {
				s.count("probe.same-source-in-flight-together")
			}
		}
	}
	texts := map[string]int{}
	refs := map[string]int{}
	for _, o := range s.ops {
		if o.Script != nil && !o.Prelude {
			texts[fmt.Sprint(o.Ledger%1, o.Script.Plain)]++
		}
		if o.Op.Ref != "" {
			refs[fmt.Sprint(o.Ledger, o.Op.Ref)]++
		}
		if o.Op.DryRun && o.success() {
			s.count("probe.preview-answered")
		}
	}
	for _, n := range texts {
		if n >= 2 {
			s.count("probe.same-text-twice")
		}
	}
	for _, n := range refs {
		if n >= 2 {
			s.count("probe.same-reference-twice")
		}
	}
	for _, c := range s.chain {
		types := map[string]bool{}
		for _, e := range c.entries {
			types[e.Type] = true
			if e.Type == "REVERTED_TRANSACTION" {
				s.count("probe.revert-committed")
			}
		}
		s.countN("probe.audit-types", len(types))
	}
	for _, o := range s.ops {
		switch o.ErrClass {
		case "in-flight-conflict":
			s.count("probe.ik-in-flight-conflict")
		case "tx:CONFLICT":
			s.count("probe.reference-conflict")
		case "revert:REVERT_OCCURRING":
			s.count("probe.revert-in-flight-conflict")
		case "revert:ALREADY_REVERTED":
			s.count("probe.already-reverted")
		case "machine:insufficient-funds":
			s.count("probe.insufficient-funds")
		case "machine:other":
			if o.Err != nil && strings.Contains(o.Err.Error(), "override") {
				s.count("probe.refused-after-run-metadata-override")
			}
		}
	}
}

func opSources(o *OpRecord) []string {
	switch o.Op.Kind {
	case "script":
		switch o.Op.Tpl {
		case tplWorld, tplSetAccountMeta, tplRaw, tplArith, tplPortionVar, tplMetaVar, tplAssetVar:
			return nil
		case tplOrdered, tplMax, tplOrderedVars, tplFallbackOverdraft, tplMaxVars:
			return []string{acctName(o.Op.Src), acctName(o.Op.Src2)}
		case tplBalance:
			return []string{acctName(o.Op.Src2)}
		case tplMeta:
			return []string{"<meta>"}
		}
		return []string{acctName(o.Op.Src)}
	case "postings":
		var out []string
		for _, p := range o.Op.Postings {
			if p.Src >= 0 {
				out = append(out, acctName(p.Src))
			}
		}
		return out
	case "revert":
		return []string{"<revert>"}
	}
	return nil
}

func sharesSource(a, b *OpRecord) bool {
	for _, x := range opSources(a) {
		for _, y := range opSources(b) {
			if x == y || strings.HasPrefix(x, "<") || strings.HasPrefix(y, "<") {
				return true
			}
		}
	}
	return false
}
