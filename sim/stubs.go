package verifsim

import "testing"

type LockerIn struct{}

func runSweep(t *testing.T)                     {}
func runDiff(t *testing.T)                      {}
func runLockerBatch(t *testing.T)               {}
func replayLocker(t *testing.T, rf *ReplayFile) {}
func replayDiff(t *testing.T, rf *ReplayFile)   {}
