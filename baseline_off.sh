#!/bin/bash
# Runs the repository's baseline test suite with the verif build tag OFF
# (the command recorded in /root/.vp/BASELINE.json).
export GOFLAGS= GOTOOLCHAIN=
for m in $(cat /w/out/gomods.txt); do MF=$(cd /repo/$m && . /w/out/goenv.sh && gomodflag); (cd /repo/$m && go test $MF -json -vet=off -count=1 -timeout 25m ./...); done
