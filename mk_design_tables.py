#!/usr/bin/env python3
"""Regenerates the sensitivity and seeded-change tables of DESIGN.md (between the
<!-- SENS --> and <!-- SEED --> markers) from sensitivity/results.json and seeded/*/meta.json."""
import glob
import json
import os
import re

V = os.path.dirname(os.path.abspath(__file__))


def sens():
    r = json.load(open(os.path.join(V, "sensitivity", "results.json")))
    rows = ["| mutation | check | what it does | repo's own tests | caught | as |", "|---|---|---|---|---|---|"]
    for k in sorted(r):
        v = r[k]
        cls = re.sub(r"^violation class=", "", v.get("class", "")).split(":")[0]
        rows.append("| %s | %s | %s | %s | %s | %s |" % (k, v["property"], v.get("note", ""), "pass" if v.get("existing_tests_pass") else "FAIL (also caught by them)",
                                                       "yes" if v.get("detected") else "**no**", cls))
    n = sum(1 for v in r.values() if v.get("detected"))
    rows.append("")
    rows.append("%d of %d caught within the quick budget (22 s of runs on 16 workers)." % (n, len(r)))
    return "\n".join(rows)


def seed():
    rows = ["| id | breaks | change (by an independent sub-agent) | needs | demo fails with / passes without | check result |", "|---|---|---|---|---|---|"]
    for f in sorted(glob.glob(os.path.join(V, "seeded", "*", "meta.json"))):
        m = json.load(open(f))
        c = m["confirmed"]
        res = []
        for p, x in (c.get("checks") or {}).items():
            cls = re.sub(r"^violation class=", "", x.get("class", "")).split(":")[0]
            res.append("%s: %s" % (p, ("caught (`%s`)" % cls) if x.get("detected") else "**missed** (exit %s)" % x.get("exit")))
        hist = m.get("history", "")
        rows.append("| %s | %s | %s | %s | %s / %s | %s%s |" % (os.path.basename(os.path.dirname(f)), m.get("breaks_property"), (m.get("summary") or "").replace("\n", " ").replace("|", "/")[:400],
                                                              (m.get("needs_to_manifest") or "").replace("\n", " ").replace("|", "/")[:300],
                                                              c.get("demo_fails_with_change"), c.get("demo_passes_without_change"), "; ".join(res), (" -- " + hist) if hist else ""))
    return "\n".join(rows)


def main():
    p = os.path.join(V, "DESIGN.md")
    s = open(p).read()
    for tag, fn in (("SENS", sens), ("SEED", seed)):
        a, b = "<!-- %s-BEGIN -->" % tag, "<!-- %s-END -->" % tag
        if a in s and b in s:
            s = s[: s.index(a) + len(a)] + "\n" + fn() + "\n" + s[s.index(b):]
    open(p, "w").write(s)


if __name__ == "__main__":
    main()
