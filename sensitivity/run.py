#!/usr/bin/env python3
"""Sensitivity self-test: applies each deliberate break of mutations.py to a scratch
worktree of /repo's HEAD, confirms that it compiles and that the repository's own tests
still pass, runs `check <property> quick` against it (VERIF_REPO) and records whether a
violation is reported. Usage: run.py [substring ...]   (results in sensitivity/results.json)
"""
import importlib.util
import json
import os
import re
import subprocess
import sys
import tempfile
import time

HERE = os.path.dirname(os.path.abspath(__file__))
VERIF = os.path.dirname(HERE)
spec = importlib.util.spec_from_file_location("m", os.path.join(HERE, "mutations.py"))
m = importlib.util.module_from_spec(spec)
spec.loader.exec_module(m)

ENV = dict(os.environ, GOFLAGS="-mod=mod", GOPROXY="off", GOSUMDB="off")


def sh(cmd, cwd=None, env=None, timeout=1800):
    r = subprocess.run(cmd, cwd=cwd, env=env or ENV, capture_output=True, text=True, timeout=timeout)
    return r.returncode, r.stdout + r.stderr


def main():
    sel = sys.argv[1:]
    results_path = os.path.join(HERE, "results.json")
    results = json.load(open(results_path)) if os.path.exists(results_path) else {}
    # the checks run from a snapshot of /verif's HEAD, so that /verif can be edited meanwhile
    snap = tempfile.mkdtemp(prefix="verif_snap_", dir="/tmp")
    os.rmdir(snap)
    subprocess.run(["git", "-C", VERIF, "worktree", "add", "-q", "--detach", snap, "HEAD"], check=True)
    wt = tempfile.mkdtemp(prefix="sens_wt_", dir="/tmp")
    os.rmdir(wt)
    code, out = sh(["git", "-C", "/repo", "worktree", "add", "-q", "--detach", wt, "HEAD"])
    if code != 0:
        print(out)
        sys.exit(2)
    try:
        for mid, prop, path, old, new, note in m.MUTATIONS:
            if sel and not any(s in mid for s in sel):
                continue
            sh(["git", "checkout", "-q", "--", "."], cwd=wt)
            fp = os.path.join(wt, path)
            src = open(fp).read()
            if src.count(old) != 1:
                results[mid] = {"property": prop, "status": "does-not-apply", "note": note, "occurrences": src.count(old)}
                print(mid, "DOES NOT APPLY (%d occurrences)" % src.count(old))
                continue
            open(fp, "w").write(src.replace(old, new))
            sh(["gofmt", "-w", path], cwd=wt)
            code, out = sh(["go", "build", "./..."], cwd=wt)
            if code != 0:
                results[mid] = {"property": prop, "status": "does-not-compile", "note": note, "output": out[-800:]}
                print(mid, "DOES NOT COMPILE", out[-300:])
                continue
            t0 = time.time()
            code, out = sh(["go", "test", "-count=1", "-vet=off", "./internal/...", "./cmd/...", "./pkg/..."], cwd=wt)
            fails = sorted(set(re.findall(r"--- FAIL: (\S+)", out)))
            fails = [f for f in fails if f not in ("TestMigrateLedgerV1",)]
            tests_ok = not fails
            code, out = sh([os.path.join(snap, "check"), prop, "quick"], cwd=snap, env=dict(os.environ, VERIF_REPO=wt))
            lines = out.strip().splitlines()
            viol = [l for l in lines if l.startswith("VIOLATION")]
            cls = [l for l in lines if l.startswith("violation class=")]
            results[mid] = {"property": prop, "note": note, "existing_tests_pass": tests_ok, "failing_tests": fails,
                            "check_exit": code, "detected": code == 1 and bool(viol),
                            "class": cls[0][:300] if cls else "", "wall_s": round(time.time() - t0, 1),
                            "tail": "" if code == 1 else "\n".join(lines[-3:])[:600]}
            print(mid, "tests_ok=%s" % tests_ok, "exit=%d" % code, "DETECTED" if code == 1 else "MISSED", cls[0][:160] if cls else "", flush=True)
            json.dump(results, open(results_path, "w"), indent=1, sort_keys=True)
            for f in viol:
                rp = f.split("replay=")[-1].strip()
                if os.path.exists(rp):
                    os.remove(rp)
    finally:
        sh(["git", "-C", "/repo", "worktree", "remove", "--force", wt])
        sh(["git", "-C", VERIF, "worktree", "remove", "--force", snap])
    json.dump(results, open(results_path, "w"), indent=1, sort_keys=True)


if __name__ == "__main__":
    main()
