# Deliberate property-breaking changes (DESIGN.md, "Sensitivity targets"). Each is
# (id, property, file, old, new, note); applied one at a time to a scratch worktree of
# /repo's HEAD by run.py, which checks that it compiles, that the repository's own tests
# still pass, and that `check <property> quick` reports a violation.
CMD = "internal/engine/command/commander.go"
CTX = "internal/engine/command/context.go"
LOCK = "internal/engine/command/lock.go"
LOG = "internal/log.go"
BATCH = "internal/engine/utils/batching/batcher.go"
JOBS = "internal/engine/utils/job/jobs.go"
COMP = "internal/engine/command/compiler.go"
POST = "internal/posting.go"
TIME = "internal/time.go"
META = "internal/metadata.go"
NUM = "internal/numscript.go"
VM = "internal/machine/vm/machine.go"

MUTATIONS = [
 # ---- C02
 ("C15-write-ignores-write", "C15", LOCK,
  "\t\t_, ok = chain.writeLocks[account]\n\t\tif ok {\n\t\t\treturn false\n\t\t}\n\t}\n\n\tlogging.FromContext(ctx).Debugf(\"Lock acquired\")",
  "\t}\n\n\tlogging.FromContext(ctx).Debugf(\"Lock acquired\")", "write intents ignore existing write locks"),
 ("C02-sources-read-only", "C02", CMD,
  "\t\t\tWrite: collectionutils.Filter(involvedSources, worldFilter),\n", "\t\t\tWrite: collectionutils.Filter(involvedSources[:0], worldFilter),\n", "sources locked only for reading"),
 ("C02-unlock-at-handoff", "C02", CMD,
  "\t\t<-done\n\t\tverifhook.Yield(ctx, \"exec.persisted\")\n", "", "locks released at hand-off, before persistence"),
 ("C02-meta-source-unlocked", "C02", VM,
  "\t\t\tif val.GetType() == machine.TypeAccount {\n\t\t\t\tinvolvedAccountsMap[machine.Address(idx)] = string(val.(machine.AccountAddress))\n\t\t\t}\n\t\tcase program.VariableAccountBalance:",
  "\t\tcase program.VariableAccountBalance:", "metadata-designated account not recorded among the involved accounts"),
 ("C02-recheck-grants-blindly", "C02", LOCK,
  "\t\t\tif node.Value().tryLock(ctx, defaultLocker) {\n", "\t\t\tif node.Value().tryLock(ctx, defaultLocker) || len(node.Value().accounts.Write) == 1 {\n", "recheck grants single-account writers without tryLock"),
 # ---- C05
 ("C05-init-no-lastlog", "C05", CMD,
  "\tcommander.lastLog, err = commander.store.GetLastLog(ctx)\n", "\t_, err = commander.store.GetLastLog(ctx)\n", "Init does not reload the chain head"),
 ("C05-init-no-lasttxid", "C05", CMD,
  "\tif lastTx != nil {\n\t\tcommander.lastTXID = lastTx.ID\n\t}\n", "\t_ = lastTx\n", "Init does not reload the last transaction id"),
 ("C05-hash-ignores-previous", "C05", LOG,
  "\tif previous != nil {\n\t\tif err := enc.Encode(previous.Hash); err != nil {\n\t\t\tpanic(err)\n\t\t}\n\t}\n", "", "ComputeHash ignores the previous hash"),
 ("C05-split-takes-tail", "C05", BATCH,
  "\t\tbatch := s.pending[:s.maxBatchSize]\n\t\ts.pending = s.pending[s.maxBatchSize:]\n",
  "\t\tbatch := s.pending[len(s.pending)-s.maxBatchSize:]\n\t\ts.pending = s.pending[:len(s.pending)-s.maxBatchSize]\n", "nextBatch takes the newest items first when splitting"),
 ("C05-two-workers", "C05", CMD,
  "batching.NewBatcher(store.InsertLogs, 1, 4096)", "batching.NewBatcher(store.InsertLogs, 2, 4096)", "two batch workers"),
 ("C05-no-append-mutex", "C05", CTX,
  "\t\tverifhook.BeforeLock(ctx, &e.commander.appendMu, \"append.lockwait\")\n\t\te.commander.appendMu.Lock()\n\t\tdefer e.commander.appendMu.Unlock()\n", "",
  "id allocation / chaining / hand-off no longer one critical section"),
 # ---- C06
 ("C06-runner-swallows-error", "C06", JOBS,
  "\t\t\t\t\tif err := r.runner(ctx, job); err != nil {\n\t\t\t\t\t\tpanic(err)\n\t\t\t\t\t}\n",
  "\t\t\t\t\tif err := r.runner(ctx, job); err != nil {\n\t\t\t\t\t\tlogger.Errorf(\"job failed: %s\", err)\n\t\t\t\t\t}\n", "a failing InsertLogs is logged and the batch acknowledged"),
 ("C06-ack-before-persist", "C06", CTX,
  "\te.commander.Append(chainedLog, func() {\n\t\tclose(done)\n\t})\n", "\te.commander.Append(chainedLog, func() {})\n\tclose(done)\n", "acknowledged when queued, not when persisted"),
 # ---- C07
 ("C07-no-store-lookup", "C07", CTX,
  "\t\tif err == nil {\n\t\t\treturn chainedLog, nil\n\t\t}\n", "\t\tif err == nil && chainedLog == nil {\n\t\t\treturn chainedLog, nil\n\t\t}\n", "idempotency key hit from the store ignored"),
 ("C07-release-before-done", "C07", CTX,
  "\tchainedLog, done, err := executor(e)\n\tif err != nil {\n\t\treturn nil, err\n\t}\n",
  "\tchainedLog, done, err := executor(e)\n\tif ik := e.parameters.IdempotencyKey; ik != \"\" {\n\t\te.commander.referencer.release(referenceIks, ik)\n\t}\n\tif err != nil {\n\t\treturn nil, err\n\t}\n", "key reservation released before the wait for persistence"),
 ("C07-key-not-on-metadata-logs", "C07", CTX,
  "\tif e.parameters.IdempotencyKey != \"\" {\n\t\tlog = log.WithIdempotencyKey(e.parameters.IdempotencyKey)\n\t}\n", "", "key stored on transaction logs only"),
 # ---- C08
 ("C08-cache-key-prefix", "C08", COMP,
  "\t_, err := digest.Write([]byte(script))\n", "\tn := len(script)\n\tif n > 60 {\n\t\tn = 60\n\t}\n\t_, err := digest.Write([]byte(script[:n]))\n", "cache key computed from the first 60 bytes of the script"),
 ("C08-cache-key-length", "C08", COMP,
  "\t_, err := digest.Write([]byte(script))\n", "\t_, err := digest.Write([]byte{byte(len(script)), byte(len(script) >> 8)})\n", "cache key computed from the length of the script"),
 # ---- C10
 ("C10-reverse-keeps-order", "C10", POST,
  "\tfor i := 0; i < len(p)/2; i++ {\n\t\tp[i], p[len(p)-i-1] = p[len(p)-i-1], p[i]\n\t}\n", "", "Reverse swaps endpoints but keeps the order"),
 ("C10-no-already-reverted-check", "C10", CMD,
  "\tif transactionToRevert.Reverted {\n\t\treturn nil, NewErrRevertTransactionAlreadyReverted()\n\t}\n", "", "already-reverted check skipped"),
 ("C10-revert-reservation-early", "C10", CMD,
  "\tdefer commander.referencer.release(referenceReverts, id)\n", "\tcommander.referencer.release(referenceReverts, id)\n", "in-flight revert guard released immediately"),
 ("C10-force-inverted", "C10", CMD,
  "\t\t}, force),\n", "\t\t}, !force),\n", "force flag inverted"),
 ("C10-marker-wrong-id", "C10", META,
  "\treturn ComputeMetadata(RevertMetadataSpecKey(), tx.String())\n", "\treturn ComputeMetadata(RevertMetadataSpecKey(), new(big.Int).Add(tx, big.NewInt(1)).String())\n", "revert marker names the wrong transaction"),
 # ---- C11
 ("C11-no-store-lookup", "C11", CMD,
  "\t\t\tif err == nil {\n\t\t\t\treturn nil, nil, NewErrConflict()\n\t\t\t}\n", "\t\t\tif err == nil && parameters.DryRun {\n\t\t\t\treturn nil, nil, NewErrConflict()\n\t\t\t}\n", "reference lookup in the store ignored for real writes"),
 ("C11-no-inflight-reservation", "C11", CMD,
  "\t\t\tif err := commander.referencer.take(referenceTxReference, script.Reference); err != nil {\n\t\t\t\treturn nil, nil, NewErrConflict()\n\t\t\t}\n",
  "\t\t\t_ = commander.referencer.take(referenceTxReference, script.Reference)\n", "in-flight reference reservation not enforced"),
 ("C11-reference-release-at-handoff", "C11", CMD,
  "\t\t<-done\n\t\tverifhook.Yield(ctx, \"exec.persisted\")\n", "", "reference reservation released when the log is queued"),
 # ---- C13
 ("C13-no-delete-metadata-hydrate", "C13", LOG,
  "\tcase DeleteMetadataLogType:\n\t\tpayload = &DeleteMetadataLogPayload{}\n", "", "HydrateLog case for DELETE_METADATA removed"),
 ("C13-time-second-precision", "C13", TIME,
  "\treturn []byte(fmt.Sprintf(`\"%s\"`, t.Format(DateFormat))), nil\n", "\treturn []byte(fmt.Sprintf(`\"%s\"`, t.Format(time.RFC3339))), nil\n", "Time marshalled at second precision"),
 ("C13-now-not-rounded", "C13", TIME,
  "\t\tTime: time.Now().UTC().Round(DatePrecision),\n", "\t\tTime: time.Now().UTC(),\n", "Now() keeps nanoseconds (what is hashed is not what the microsecond-precision store keeps)"),
 ("C13-target-id-float", "C13", LOG,
  "\t\tid, err = strconv.ParseUint(string(x.TargetID), 10, 64)\n\tdefault:\n\t\tpanic(\"unknown type\")",
  "\t\tvar f float64\n\t\tf, err = strconv.ParseFloat(string(x.TargetID), 32)\n\t\tid = uint64(float32(f))\n\tdefault:\n\t\tpanic(\"unknown type\")", "set-metadata target id decoded through a float32"),
 # ---- C14
 ("C14-preview-appends", "C14", CTX,
  "\tif e.parameters.DryRun {\n\t\tret := make(chan struct{})\n\t\tclose(ret)\n\t\treturn log.ChainLog(nil), ret, nil\n\t}\n",
  "\tif e.parameters.DryRun && log.Type != ledger.DeleteMetadataLogType {\n\t\tret := make(chan struct{})\n\t\tclose(ret)\n\t\treturn log.ChainLog(nil), ret, nil\n\t}\n", "preview of a metadata deletion is appended"),
 ("C14-preview-allocates-txid", "C14", CMD,
  "\tif !dryRun {\n\t\tcommander.lastTXID = ret\n\t}\n", "\tcommander.lastTXID = ret\n", "preview consumes a transaction id"),
 ("C14-preview-publishes", "C14", CMD,
  "\tif payload, ok := chainedLog.Data.(ledger.SetMetadataLogPayload); ok && !parameters.DryRun {\n", "\tif payload, ok := chainedLog.Data.(ledger.SetMetadataLogPayload); ok {\n", "preview of a metadata write publishes an event"),
 ("C14-preview-chains", "C14", CTX,
  "\t\treturn log.ChainLog(nil), ret, nil\n", "\t\treturn e.commander.chainLog(log), ret, nil\n", "preview advances the chain head without persisting"),
 # ---- C15
 ("C15-read-ignores-write", "C15", LOCK,
  "\tfor _, account := range intent.accounts.Read {\n\t\t_, ok := chain.writeLocks[account]\n\t\tif ok {\n\t\t\treturn false\n\t\t}\n\t}\n", "", "read intents ignore write locks"),
 ("C15-recheck-stops-at-blocked", "C15", LOCK,
  "\t\t\t\tclose(node.Value().acquired)\n\t\t\t}\n", "\t\t\t\tclose(node.Value().acquired)\n\t\t\t} else {\n\t\t\t\tbreak\n\t\t\t}\n", "recheck stops at the first blocked intent: requests compatible with every holder keep waiting behind it"),
 ("C15-unlock-miscounts-readers", "C15", LOCK,
  "\t\tif atomicValue.Add(-1) == 0 {\n", "\t\tif atomicValue.Add(-1) <= 1 {\n", "unlock drops the read lock while one reader remains"),
 ("C15-cancel-does-not-dequeue", "C15", LOCK,
  "\t\tremoved := defaultLocker.intents.RemoveValue(intent)\n", "\t\tremoved := defaultLocker.intents.FirstNode()\n", "cancellation leaves the intent in the waiting list"),
 ("C15-no-release-on-late-grant", "C15", LOCK,
  "\t\tif removed == nil {\n\t\t\treleaseIntent(ctx)\n\t\t}\n", "\t\t_ = removed\n", "a request granted while being cancelled keeps its locks"),
 # ---- C16
 ("C16-roles-swapped", "C16", CMD,
  "commander.monitor.RevertedTransaction(ctx, transactionToRevert, payload.RevertTransaction)", "commander.monitor.RevertedTransaction(ctx, payload.RevertTransaction, transactionToRevert)", "revert event roles swapped"),
 ("C16-savemeta-not-published", "C16", CMD,
  "\t\tcommander.monitor.SavedMetadata(ctx, payload.TargetType, fmt.Sprint(payload.TargetID), payload.Metadata)\n", "\t\t_ = fmt.Sprint(payload.TargetID)\n", "SaveMeta no longer publishes"),
 ("C16-preview-publishes", "C16", CMD,
  "\tif !parameters.DryRun {\n\t\tcommander.monitor.CommittedTransactions(", "\t{\n\t\tcommander.monitor.CommittedTransactions(", "preview of a transaction publishes an event"),
 ("C16-publish-before-persist", "C16", CTX,
  "\te.commander.Append(chainedLog, func() {\n\t\tclose(done)\n\t})\n", "\te.commander.Append(chainedLog, func() {})\n\tclose(done)\n", "acknowledgement (and therefore the event) before persistence"),
 ("C16-event-from-request-args", "C16", CMD,
  "commander.monitor.DeletedMetadata(ctx, payload.TargetType, payload.TargetID, payload.Key)", "commander.monitor.DeletedMetadata(ctx, payload.TargetType, targetID, key)", "DELETED_METADATA built from the request arguments (wrong after an idempotent replay)"),
]
